// C13 (c) — libFuzzer target: arbitrary bytes into the Timbuk parser and the
// loaders of all four encodings.  Only std::exception may escape.  Successful
// parses whose names are inside the round-trip domain go through the
// serialise/parse oracle of C13 (a).
#include <vata/bdd_bu_tree_aut.hh>
#include <vata/bdd_td_tree_aut.hh>
#include <vata/explicit_finite_aut.hh>
#include <vata/explicit_tree_aut.hh>
#include <vata/parsing/timbuk_parser.hh>
#include <vata/serialization/timbuk_serializer.hh>

#include <cstdint>
#include <cstdio>
#include <cstdlib>
#include <string>
#include <unistd.h>

using VATA::Util::AutDescription;

namespace {

struct Stats {
	unsigned long execs = 0, parsed = 0, parsedWithTransitions = 0, roundtrips = 0, rejected = 0;
	unsigned long loaded[4] = {0, 0, 0, 0}, loadRejected[4] = {0, 0, 0, 0};
} st;

void write_stats()
{
	const char* path = getenv("VERIF_FUZZ_STATS");
	if (!path) return;
	FILE* f = fopen(path, "w");
	if (!f) return;
	fprintf(f, "{\"execs\": %lu, \"parsed\": %lu, \"parsed_with_transitions\": %lu, \"roundtrips\": %lu, \"rejected\": %lu, "
		"\"loaded_explicit_tree\": %lu, \"loaded_explicit_fa\": %lu, \"loaded_bdd_bu\": %lu, \"loaded_bdd_td\": %lu, "
		"\"load_rejected_explicit_tree\": %lu, \"load_rejected_explicit_fa\": %lu, \"load_rejected_bdd_bu\": %lu, \"load_rejected_bdd_td\": %lu}\n",
		st.execs, st.parsed, st.parsedWithTransitions, st.roundtrips, st.rejected,
		st.loaded[0], st.loaded[1], st.loaded[2], st.loaded[3], st.loadRejected[0], st.loadRejected[1], st.loadRejected[2], st.loadRejected[3]);
	fclose(f);
}

[[noreturn]] void violation(const char* what, const std::string& detail)
{
	fprintf(stderr, "VERIF-ORACLE-FAILURE: %s\n%s\n", what, detail.c_str());
	write_stats();
	__builtin_trap();
}

bool in_domain(const std::string& n)
{
	if (n.empty()) return false;
	for (char c : n) if (c <= 0x20 || c >= 0x7f || c == '(' || c == ')' || c == ',' || c == ':') return false;
	return n.find("->") == std::string::npos;
}

bool desc_in_domain(const AutDescription& d)
{
	for (auto& s : d.finalStates) if (!in_domain(s)) return false;
	for (auto& t : d.transitions) {
		if (!in_domain(t.second) || !in_domain(t.third)) return false;
		for (auto& c : t.first) if (!in_domain(c)) return false;
	}
	return true;
}

template <class Aut, class SetAlpha>
void try_load(int idx, const std::string& text, SetAlpha setAlpha)
{
	VATA::Parsing::TimbukParser parser;
	VATA::Serialization::TimbukSerializer ser;
	try {
		Aut a;
		setAlpha(a);
		VATA::AutBase::StateDict dict;
		a.LoadFromString(parser, text, dict);
		std::string dump = a.DumpToString(ser, dict);
		(void)dump;
		++st.loaded[idx];
	}
	catch (const std::exception&) { ++st.loadRejected[idx]; }
}

} // namespace

extern "C" int LLVMFuzzerInitialize(int*, char***)
{
	atexit(write_stats);
	return 0;
}

extern "C" int LLVMFuzzerTestOneInput(const uint8_t* data, size_t size)
{
	if (size > 4096) return 0;
	++st.execs;
	if (st.execs % 20000 == 0) write_stats();
	const std::string text(reinterpret_cast<const char*>(data), size);
	VATA::Parsing::TimbukParser parser;
	VATA::Serialization::TimbukSerializer ser;

	bool parsed = false;
	AutDescription desc;
	try { desc = parser.ParseString(text); parsed = true; }
	catch (const std::exception&) { ++st.rejected; }
	if (parsed) {
		++st.parsed;
		if (!desc.transitions.empty()) ++st.parsedWithTransitions;
		if (desc_in_domain(desc)) {
			AutDescription back;
			std::string out = ser.Serialize(desc);
			try { back = parser.ParseString(out); }
			catch (const std::exception& e) { violation("serialisation of a parsed description is rejected", out + "\n" + e.what()); }
			if (!(back == desc)) violation("ParseString(Serialize(d)) != d", out);
			++st.roundtrips;
		}
	}
	using VATA::ExplicitTreeAut;
	using VATA::ExplicitFiniteAut;
	using VATA::BDDBottomUpTreeAut;
	using VATA::BDDTopDownTreeAut;
	// fresh private alphabets: nothing leaks between iterations (BDD symbols live in a 16-bit space)
	try_load<ExplicitTreeAut>(0, text, [](ExplicitTreeAut& a) {
		ExplicitTreeAut::AlphabetType alpha(new ExplicitTreeAut::OnTheFlyAlphabet);
		a.SetAlphabet(alpha);
	});
	try_load<ExplicitFiniteAut>(1, text, [](ExplicitFiniteAut& a) {
		a.GetAlphabet() = ExplicitFiniteAut::AlphabetType(new ExplicitFiniteAut::OnTheFlyAlphabet);
	});
	try_load<BDDBottomUpTreeAut>(2, text, [](BDDBottomUpTreeAut& a) {
		a.GetAlphabet() = BDDBottomUpTreeAut::AlphabetType(new BDDBottomUpTreeAut::OnTheFlyAlphabet);
	});
	try_load<BDDTopDownTreeAut>(3, text, [](BDDTopDownTreeAut& a) {
		a.GetAlphabet() = BDDTopDownTreeAut::AlphabetType(new BDDTopDownTreeAut::OnTheFlyAlphabet);
	});
	return 0;
}
