// C20 (b) — structure-aware libFuzzer target: bytes are decoded into the same
// record list the rapidcheck workload generator uses (8 x uint16 per record)
// and run in-process under ASan+UBSan.  The symbol pool is fixed, so the global
// alphabets do not grow between iterations.
#include "../harness/workload.hh"

#include <cstdint>
#include <cstdio>
#include <cstdlib>

namespace {
struct CountSink : public wl::Sink {
	unsigned long ops = 0;
	std::set<std::string> kinds;
	void op(const std::string& p) override { ++ops; kinds.insert(p); }
};
unsigned long g_execs = 0, g_ops = 0, g_nontrivial = 0;
std::set<std::string> g_kinds;

void write_stats()
{
	const char* path = getenv("VERIF_FUZZ_STATS");
	if (!path) return;
	FILE* f = fopen(path, "w");
	if (!f) return;
	fprintf(f, "{\"execs\": %lu, \"operations\": %lu, \"nontrivial\": %lu, \"operation_kinds\": %lu}\n", g_execs, g_ops, g_nontrivial,
		static_cast<unsigned long>(g_kinds.size()));
	fclose(f);
}
}

extern "C" int LLVMFuzzerInitialize(int*, char***)
{
	atexit(write_stats);
	return 0;
}

extern "C" int LLVMFuzzerTestOneInput(const uint8_t* data, size_t size)
{
	if (size < 32 || size > 16 * 64) return 0;
	eng::Raw raw;
	for (size_t off = 0; off + 16 <= size; off += 16) {
		eng::Rec r;
		for (size_t i = 0; i < 8; ++i) r[i] = static_cast<uint32_t>(data[off + 2 * i]) | (static_cast<uint32_t>(data[off + 2 * i + 1]) << 8);
		raw.push_back(r);
	}
	CountSink sink;
	wl::run(raw, sink, getenv("VERIF_FUZZ_TIER") ? 1 : 0);
	++g_execs;
	g_ops += sink.ops;
	std::set<std::string> enc;
	for (auto& k : sink.kinds) { g_kinds.insert(k); enc.insert(k.substr(0, k.find(':'))); }
	if (sink.kinds.size() >= 6 && enc.size() >= 3) ++g_nontrivial;
	if (g_execs % 500 == 0) write_stats();
	return 0;
}
