// Stand-alone driver for a libFuzzer target (no fuzzer runtime): runs
// LLVMFuzzerTestOneInput once on every file given on the command line.  Used to
// replay workloads under valgrind on an uninstrumented build.
#include <cstdint>
#include <cstdio>
#include <fstream>
#include <iterator>
#include <vector>

extern "C" int LLVMFuzzerTestOneInput(const uint8_t* data, size_t size);
extern "C" int LLVMFuzzerInitialize(int*, char***);

int main(int argc, char** argv)
{
	LLVMFuzzerInitialize(&argc, &argv);
	for (int i = 1; i < argc; ++i) {
		std::ifstream is(argv[i], std::ios::binary);
		std::vector<uint8_t> buf((std::istreambuf_iterator<char>(is)), std::istreambuf_iterator<char>());
		LLVMFuzzerTestOneInput(buf.data(), buf.size());
	}
	std::printf("replayed %d inputs\n", argc - 1);
	return 0;
}
