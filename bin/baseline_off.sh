#!/bin/sh
# Runs the repository's own test suite with the verification guard OFF
# (plain CMake build, exactly as the baseline was recorded).
# Expected: 43 tests pass; aut_down_inclusion_rec_nosim and
# aut_down_inclusion_opt_rec_nosim of the BU suite fail (NotImplemented) as in
# BASELINE.json's always_fail list.
set -e
REPO=${VERIF_REPO:-/repo}
B=${VERIF_BASELINE_BUILD:-$REPO/_build}
cmake -G Ninja -S "$REPO" -B "$B" -DCMAKE_BUILD_TYPE=RelWithDebInfo -DCMAKE_CXX_FLAGS=-Wno-error >/dev/null
cmake --build "$B" -j16 >/dev/null
ctest --test-dir "$B" -j8 --timeout 900 "$@"
