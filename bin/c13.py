"""C13: rapidcheck round trips (a, b) + libFuzzer robustness campaign (c)."""
import os
import shutil
import subprocess
import time


def check(drv, pid, spec, tier, seed, t0):
    cfg = spec[tier]
    merged = drv.run_harness_tier(pid, spec, tier, seed)
    confirmed, unreproduced = drv.confirm_failures(pid, merged)
    cov = drv.coverage_from(merged, spec, tier)
    problems = drv.health_problems(merged, spec, tier)
    shutil.rmtree(merged["rundir"], ignore_errors=True)

    fz = drv.run_fuzz_campaign(pid, "fuzz_parser", cfg["fuzz_jobs"], cfg["fuzz_seconds"], seed,
                               os.path.join(drv.VERIF, "fuzz", "seeds", "parser"),
                               os.path.join(drv.VERIF, "fuzz", "timbuk.dict"))
    for c in fz["crashes"]:
        # a crash artifact is the reproducible unit: confirm by running it once more
        r = subprocess.run([fz["exe"], c], env=fz["env"], stdout=subprocess.DEVNULL, stderr=subprocess.DEVNULL)
        f = {"sig": "fuzz:parser:crash", "msg": "libFuzzer artifact (sanitizer report, oracle failure or non-standard exception); see " + c + ".log", "replay": c}
        (confirmed if r.returncode != 0 else unreproduced).append(f)
    for c in fz["hangs"]:
        confirmed.append({"sig": "fuzz:parser:hang", "msg": "input that still does not finish within 80 s", "replay": c})
    cov["evaluations"] += fz["execs"]
    nontrivial_fuzz = fz["corpus_stats"].get("parsed_with_transitions", 0)
    cov["distinct_nontrivial"] += nontrivial_fuzz
    cov["fuzz"] = {
        "target": "fuzz/fuzz_parser.cc", "jobs": cfg["fuzz_jobs"], "seconds_per_job": cfg["fuzz_seconds"], "execs": fz["execs"],
        "counters": fz["stats"], "final_corpus_files": fz["corpus_files"], "final_corpus_classification": fz["corpus_stats"],
        "distinct_nontrivial_corpus_inputs": nontrivial_fuzz, "timeouts_oom_slow_units_ignored_as_noise": fz["noise"],
        "crash_artifacts": len(fz["crashes"]), "persistent_hangs": len(fz["hangs"]),
    }
    cov["samples"] = cov["samples"][:4] + [{"fuzz_corpus_input": s} for s in fz["samples"][:2]]
    if fz["execs"] < 1000:
        problems.append(f"fuzz campaign executed only {fz['execs']} inputs")
    if fz["stats"].get("parsed", 0) == 0:
        problems.append("fuzz campaign never produced an input the parser accepts")
    shutil.rmtree(fz["rundir"], ignore_errors=True)
    return drv.finish(pid, tier, seed, spec, cov, t0, confirmed, unreproduced, merged["known"], problems)


def replay(drv, pid, spec, path):
    with open(path, "rb") as f:
        head = f.read(16)
    if head.startswith(b"# property"):
        return None   # a rapidcheck case: default replay
    exe = drv.build_fuzz_target("fuzz_parser")
    env = dict(os.environ)
    env.update(drv.FUZZ_ENV)
    r = subprocess.run(["timeout", "120", exe, "-timeout=100", path], env=env, stdout=subprocess.PIPE, stderr=subprocess.STDOUT, text=True, errors="replace")
    print(r.stdout[-4000:])
    if r.returncode != 0:
        print(f"VIOLATION property={pid} replay={path}")
        return 1
    return 0
