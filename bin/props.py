"""Per-property configuration of the driver: harness, budgets, non-triviality rule."""

GEN_TA = ("rapidcheck generates a list of 8-integer records; a pure decoder turns it into tree automata over the ranked pool "
          "a,b,c,d:0 g,h:1 f,k:2 t:3 (in a quarter of the alphabets one or two non-nullary symbols carry the NAME of the first leaf, e.g. a:0 a:2) "
          "with chosen state numbers (identity/reversed/permuted/sparse/offset) and rule insertion order; ")

COMMON_ASSUMPTIONS = [
    "library built from /repo's working tree with clang++ -O1 -DNDEBUG -DLIBVATA_VERIF, ASan+UBSan (asserts are not part of the oracle)",
    "each case runs in a forked child (pristine global alphabets / caches); verdict judged against reference models in engine/ref_*.hh",
    "allocator: even workers keep ASan's quarantine (use-after-free visible), odd workers run with quarantine_size_mb=0 so that a freed address is handed out again at once, as with the production allocator (stale entries of address-keyed caches become visible); the mode is stored in the case file",
    "exploration only: small automata, bounded case counts; absence of violations beyond the explored cases is not established",
]

PROPS = {
    "C01": {
        "harness": "c01",
        "quick": {"workers": 8, "cases": 2000, "size": 30},
        "thorough": {"workers": 16, "cases": 3000, "size": 40},
        "min_nontrivial_frac": 0.25,
        "min_tag_frac": {"verdict:included": 0.15, "verdict:not-included": 0.15},
        "rule": GEN_TA + "pairs (A,B) built by strategies indep/superset/ablate/split/leafmiss/detB/degenerate, fanout (1/6: every state of A in 3 copies, every rule in 2-4 of its copies) and chain (1/96: unary chains of 30-1540 levels differing at the bottom); every case runs the 8 implemented "
                "InclParam selections through the CLI protocol (+ the 4 NOSIM ones and the default on unprepared operands) and compares each verdict with "
                "an exact reference (pair exploration (q,S), witness re-validated). Non-trivial: L(A) and L(B) non-empty and some accepting run of A uses "
                "a non-nullary rule. Distinct: hash of the canonical case text.",
        "assumptions": COMMON_ASSUMPTIONS + ["simulation selections are driven through SanitizeAutsForInclusion + UnionDisjointStates + ComputeSimulation exactly like cli/operations.hh"],
    },
    "C02": {
        "harness": "c02",
        "quick": {"workers": 8, "cases": 500, "size": 24},
        "thorough": {"workers": 16, "cases": 1500, "size": 34},
        "min_nontrivial_frac": 0.25,
        "rule": GEN_TA + "pairs (A,B) with overlapping state numbers (Union, Intersection, IntersectionBU) and offset-disjoint numbers (UnionDisjointStates); "
                "result languages compared with reference union/product, translation maps checked semantically (language from the result state = language from the "
                "named operand state / pair), operands re-read after every call, pre-filled Union maps, and the cli/vata.cc naming flow (dictionaries, -s/-p pruning, "
                "CreateUnionStringToStateMap/CreateProductStringToStateMap, named dump). Non-trivial: both languages non-empty and the product non-empty, or "
                "overlapping state numbers with a non-empty union. Distinct: hash of the canonical case text.",
        "assumptions": COMMON_ASSUMPTIONS + ["pre-filled maps: Union with one pre-filled entry (documented [in,out]); Intersection/IntersectionBU with the complete map of a previous call on the same operands (dense values, so new pairs cannot collide); arbitrary pre-filled numbers that collide with the numbers the routines allocate are outside the domain"],
    },
    "C03": {
        "harness": "c03",
        "quick": {"workers": 8, "cases": 2500, "size": 24},
        "thorough": {"workers": 16, "cases": 6000, "size": 36},
        "min_nontrivial_frac": 0.3,
        "rule": GEN_TA + "single automata plus injected shapes (final state without rules + unreachable rule owner, no final state, rule over a never-productive child); "
                "RemoveUnreachableStates / RemoveUselessStates (with and without translation map) compared by language with the input and checked for dead states/rules on the result; "
                "IsLangEmpty against the productivity fixpoint, also along a 7-step history on one object (queries interleaved with copy-/move-assignment from an automaton of the opposite emptiness, SetStateFinal, EraseFinalStates, AddTransition). One case in 24 (C03: 48, C14: 64) is LARGE (20-150 states: backbone through all states + the generated rules stretched over them; in the dense half every state owns the same leaf, so states are nearly totally ordered by simulation). Non-trivial: the input has an unreachable rule owner or an unproductive state. Distinct: hash of the case text.",
        "assumptions": COMMON_ASSUMPTIONS,
    },
    "C04": {
        "harness": "c04",
        "quick": {"workers": 8, "cases": 2000, "size": 24},
        "thorough": {"workers": 16, "cases": 8000, "size": 36},
        "min_nontrivial_frac": 0.2,
        "rule": GEN_TA + "downward simulation on arbitrary automata, upward simulation on reference-trimmed automata, states renumbered 0..n-1 through a generated permutation, "
                "n passed as NumStates; every pair (q,r) compared with the naive greatest fixpoint of the definition; 1/24 of the cases are large (20-150 states, a backbone of unary/binary rules through all states plus the generated rules). One case in 24 is LARGE (20-150 states), half of those DENSE (relations with thousands of pairs). Non-trivial: the reference relation is neither the identity "
                "nor total. Distinct: hash of the case text.",
        "assumptions": COMMON_ASSUMPTIONS + ["upward simulation is only requested for trimmed automata (stated precondition); the empty automaton is exercised with NumStates = 0 only"],
    },
    "C05": {
        "harness": "c05",
        "quick": {"workers": 8, "cases": 1500, "size": 20},
        "thorough": {"workers": 16, "cases": 8000, "size": 30},
        "min_nontrivial_frac": 0.2,
        "rule": GEN_TA + "automata with sparse/dense numbers, useless states and (flavours 1,2) every state split in two copies to create simulation-equivalent states; "
                "Reduce() / Reduce(TA_DOWNWARD): language equal to the input's, no more states, no more rules, and existence of a map from input states onto result states under which "
                "every result rule/final is an image. One case in 24 (C03: 48, C14: 64) is LARGE (20-150 states: backbone through all states + the generated rules stretched over them; in the dense half every state owns the same leaf, so states are nearly totally ordered by simulation). Non-trivial: two useful states are downward-simulation equivalent. Distinct: hash of the case text.",
        "assumptions": COMMON_ASSUMPTIONS,
    },
    "C06": {
        "harness": "c06",
        "quick": {"workers": 8, "cases": 3000, "size": 16},
        "thorough": {"workers": 16, "cases": 4000, "size": 22},
        "min_nontrivial_frac": 0.15,
        "rule": GEN_TA + "automata with <= 3 (thorough 4) states plus extra registered symbols, in the child's pristine global alphabet or a private OnTheFlyAlphabet; the alphabet S is read back "
                "from the automaton's dictionary; Complement checked by: empty product with A, universality of A+C over S (exact reference inclusion), no foreign symbol, and "
                "enumeration of all small trees over S. Non-trivial: L(A) neither empty nor universal and S has a symbol of arity >= 2. Distinct: hash of the case text.",
        "assumptions": COMMON_ASSUMPTIONS,
    },
    "C14": {
        "harness": "c14",
        "quick": {"workers": 8, "cases": 6000, "size": 24},
        "thorough": {"workers": 16, "cases": 10000, "size": 36},
        "min_nontrivial_frac": 0.2,
        "rule": GEN_TA + "automaton + total state map (identity / injective / merging / into sparse numbers) through ReindexStates(functor), ReindexStates(dst, functor, addFinalStates) into empty and "
                "non-empty destinations, ReindexStates(weak translator) empty and pre-filled, CollapseStates, and an arity-preserving symbol map through TranslateSymbols; the result must be "
                "set-equal to the image. One case in 24 (C03: 48, C14: 64) is LARGE (20-150 states: backbone through all states + the generated rules stretched over them; in the dense half every state owns the same leaf, so states are nearly totally ordered by simulation). Half of the inputs live over their own alphabet (symbol numbers differ from the default alphabet); results of the value-returning entry points are read through their own alphabet. Non-trivial: the map merges two owners of rules for the same symbol, or is a non-identity injection on an automaton with a non-nullary accepting run.",
        "assumptions": COMMON_ASSUMPTIONS + ["state maps are total on the used states (CollapseStates/ReindexStates use at())"],
    },
    "C15": {
        "harness": "c15",
        "quick": {"workers": 8, "cases": 4000, "size": 24},
        "thorough": {"workers": 16, "cases": 6000, "size": 36},
        "min_nontrivial_frac": 0.2,
        "rule": GEN_TA + "automata extended by chains of unary/binary rules (deep shortest trees), unproductive final states, leaf-only languages, empty languages; GetCandidateTree's result must be "
                "language-included in the input (exact reference) and non-empty whenever the input is - also along a 6-step history on one object (queries interleaved with copy-/move-assignment from another automaton and the mutators). One case in 24 (C03: 48, C14: 64) is LARGE (20-150 states: backbone through all states + the generated rules stretched over them; in the dense half every state owns the same leaf, so states are nearly totally ordered by simulation). Non-trivial: non-empty language and (shallowest found witness of depth >= 3 or an unproductive final state).",
        "assumptions": COMMON_ASSUMPTIONS,
    },
    "C09": {
        "harness": "c09",
        "quick": {"workers": 8, "cases": 3000, "size": 24},
        "thorough": {"workers": 16, "cases": 6000, "size": 34},
        "min_nontrivial_frac": 0.2,
        "min_tag_frac": {"verdict:included": 0.15, "verdict:not-included": 0.15},
        "rule": "rapidcheck generates 8-integer records; a pure decoder builds NFA pairs over <= 3 symbols (several start states, start states that are final, unreachable/dead states, symbols present in one operand only) "
                "by strategies indep/superset/ablate/split/symmiss/degenerate with chosen state numbers; the antichain, congruence-depth and congruence-breadth selections are run through the CLI protocol "
                "(SanitizeAutsForInclusion, then CheckInclusion), the antichain selection and the default overload also on unprepared operands; every verdict is compared with an exact reference "
                "(pair exploration (q,S) over the subset construction of B, witness word re-validated). A watchdog turns a call that does not return on these tiny inputs into a no-verdict violation (10 s + 2 x 45 s). "
                "1/16 of the cases are LARGE: both operands get an extra non-final start state heading a chain of 10-270 states that ends in a final state (hash containers are rehashed, several start states of which only some are final), and A accepts the empty word in half of them. 1/64 of the cases take two of the word automata shipped in tests/fa_timbuk_armc (files < 60 kB) instead: the three selections must agree with each other and with the reference whenever it terminates within its cap. "
                "Selections driven: antichains, congr-depth, congr-breadth and the two congruence selections with SetEquivalence(true). Non-trivial: both languages contain a word of length >= 2 and some reached macro-state of B has >= 2 states. Distinct: hash of the case text.",
        "assumptions": COMMON_ASSUMPTIONS + ["congruence selections are only called on operands prepared by SanitizeAutsForInclusion (the dispatcher forms a disjoint union of its operands)",
                                              "SIM / EQUIV selections are not claimed by the property (FA ComputeSimulation is unusable) and are not exercised"],
    },
    "C10": {
        "harness": "c10",
        "quick": {"workers": 8, "cases": 2000, "size": 22},
        "thorough": {"workers": 16, "cases": 10000, "size": 32},
        "min_nontrivial_frac": 0.3,
        "rule": "NFA pairs as for C09 (eps-acceptance, several start states, product states with exactly one initial component, dead/unreachable parts); results of Union, UnionDisjointStates, Intersection, "
                "Reverse (also twice), RemoveUnreachableStates, RemoveUselessStates are read through DumpToString with the harness' own reader and compared by language with reference union/product/mirror/"
                "identity (exact subset-construction inclusion both ways); GetCandidateTree must be a sub-language, non-empty whenever the input is. Then a chain of 4-10 further operations is applied to RESULTS of earlier ones "
                "(and repeatedly to the same operand object; UnionDisjointStates between the A numbering family and a disjointly numbered copy of B and their derivatives): every handle carries the language it must have, computed by the "
                "reference operations from the models of its operands, never from what the library returned. "
                "Non-trivial: an operand accepts eps or has >= 2 start states, and not both languages are empty. Distinct: hash of the case text.",
        "assumptions": COMMON_ASSUMPTIONS,
    },
    "C07": {
        "harness": "c07",
        "quick": {"workers": 8, "cases": 1000, "size": 22},
        "thorough": {"workers": 16, "cases": 2500, "size": 30},
        "min_nontrivial_frac": 0.25,
        "min_tag_frac": {"verdict:included": 0.15, "verdict:not-included": 0.15, "two-children-with-several-macrostates": 0.03},
        "rule": GEN_TA + "pairs as for C01 with the split/ablate/leafmiss strategies weighted up; both BDD encodings are loaded through the Timbuk loader; implemented selections (BU: upward NOSIM via CLI protocol, "
                "direct and default; downward-recursive SIM with a legitimately computed and with a dummy relation; TD: downward recursive with/without implication cache, NOSIM via CLI protocol and direct, "
                "SIM with the relation computed on the BU union as the library itself does) are compared with the exact reference verdict; on a 20 % sample all other of the 128 InclParam words must throw. "
                "Non-trivial: as C01; the class 'two-children-with-several-macrostates' (a non-unary rule of A whose children each have >= 2 reference macro-states) is tracked with a floor. Distinct: hash of the case text.",
        "assumptions": COMMON_ASSUMPTIONS + ["BU ANTICHAINS_UP_SIM is neither claimed nor reachable with a legitimately computed relation and is skipped"],
    },
    "C08": {
        "harness": "c08",
        "quick": {"workers": 8, "cases": 1200, "size": 30, "min_records": 12},
        "thorough": {"workers": 16, "cases": 2500, "size": 44, "min_records": 12},
        "min_nontrivial_frac": 0.3,
        "rule": "histories of 4-24 steps over pools of <= 6 handles per BDD encoding built from three generated automata (<= 4-5 states; the first two are a related pair built by the split/superset/ablate strategies so that their product is rich; every history starts with their plain products in both operand orders and both encodings): load into a fresh handle (dump must denote the generated language), "
                "copy-construct, copy-assign, Union (with/without maps), UnionDisjointStates (only when the two dumps taken before the call have disjoint state sets), Intersection, RemoveUnreachableStates, "
                "RemoveUselessStates (no useless state may remain in the dump), GetTopDownAut, drop; after a copy/union/trim the next binary step is biased towards the handles sharing a table. Every expectation is formed from the "
                "operand dumps taken immediately before the call; operands are re-dumped after the call. Non-trivial: some binary operation had an operand that shares its transition table with another live handle. "
                "Distinct: hash of the case text (automata + planned steps).",
        "assumptions": COMMON_ASSUMPTIONS + ["automata are only loaded into fresh handles (AddTransition on a shared table is an explicitly unimplemented branch)"],
    },
    "C11": {
        "harness": "c11",
        "quick": {"workers": 8, "cases": 5000, "size": 36, "min_records": 14},
        "thorough": {"workers": 16, "cases": 8000, "size": 50, "min_records": 14},
        "min_nontrivial_frac": 0.3,
        "rule": "histories of 6-32 steps over <= 6 live ExplicitTreeAut and <= 4 live ExplicitFiniteAut handles: default-construct, build/load, copy-construct (all four copyTrans/copyFinal combinations), copy-assign (incl. self), "
                "move-construct, move-assign, AddTransition (both overloads), SetStateFinal, SetStatesFinal (bulk, adds), SetStateStart, EraseFinalStates, Clear, destroy, the two calls that write INTO an automaton of the caller (ReindexStates(dst,..), CopyTransitionsFrom), value-producing operations (Union, UnionDisjointStates, Intersection(BU), RemoveUnreachableStates, "
                "RemoveUselessStates, Reduce, GetCandidateTree, ReindexStates, CollapseStates, TranslateSymbols, Reverse) whose results enter the pool with the value observed at return, and verdict-producing calls "
                "(IsLangEmpty, the 8 inclusion selections). After EVERY step all live handles are read (iteration / dump) and must equal their model values; at the end every recorded value/verdict call is repeated on freshly "
                "built operands with the same values and must give the same verdict / a language-equivalent automaton with the same numbers of states and rules. Non-trivial: the history mutates a handle that (potentially) "
                "shares storage with another live handle. Distinct: hash of the case text (automata + planned steps).",
        "assumptions": COMMON_ASSUMPTIONS + ["moved-from handles are only destroyed", "syntactic equality of repeated results is not demanded (numbering may follow heap addresses)"],
    },
    "C12": {
        "harness": "c12",
        "quick": {"workers": 8, "cases": 4000, "size": 40, "min_records": 6},
        "thorough": {"workers": 16, "cases": 10000, "size": 70, "min_records": 6},
        "min_nontrivial_frac": 0.3,
        "rule": "histories of AddTransition (5 states incl. a far one, 4 numeric symbols each used with arities 0-3, duplicates, re-adding an existing rule through both overloads), SetStateFinal, SetStatesFinal, EraseFinalStates, Clear on one "
                "ExplicitTreeAut; after every step the range-for iteration (as a multiset: each rule exactly once), ContainsTransition on every model rule and on generated absent rules (other parent / symbol / arity / child / unknown parent), "
                "GetAcceptTrans, aut[q] for every pool state and an unknown one (incl. empty()), GetUsedStates, GetFinalStates, IsStateFinal and AreTransitionsEmpty are compared with a set-of-rules model. "
                "Non-trivial: the history has a Clear or EraseFinalStates after at least one add, and a duplicate add. Distinct: hash of the planned history.",
        "assumptions": COMMON_ASSUMPTIONS + ["Clear() also empties the final set (as implemented and as the model assumes)"],
    },
    "C16": {
        "harness": "c16",
        "quick": {"workers": 8, "cases": 5000, "size": 30, "min_records": 4},
        "thorough": {"workers": 16, "cases": 12000, "size": 50, "min_records": 4},
        "min_nontrivial_frac": 0.2,
        "rule": "labelled transition systems with 1-8 (thorough 14) states, 1-4 labels, generated edges (states without in/out edges, several labels between the same states; exact duplicates of an edge kept in 1/8 of the cases), "
                "initial partition = single block (computeSimulation(size) / computeSimulation()) or a generated partition into non-empty blocks with a generated preorder on blocks (reflexive transitive closure of "
                "generated pairs), requested output size n or 1..n; 1/24 of the cases are large (65-220 states, chain or binary-tree backbone plus generated edges); the result size and every entry (q,r) below the output size are compared with the naive greatest simulation inside {(q,r) | block(q) <= block(r)}. "
                "Non-trivial: the reference relation is strictly between identity and total and at least one pair had to be removed. Distinct: hash of the case text.",
        "assumptions": COMMON_ASSUMPTIONS + ["the partition covers exactly 0..n-1 with non-empty blocks, the block relation is a preorder of matching size, init() is called, n >= 1 (the engine's preconditions)"],
    },
    "C17": {
        "harness": "c17",
        "quick": {"workers": 8, "cases": 2000, "size": 40, "min_records": 6},
        "thorough": {"workers": 16, "cases": 12000, "size": 70, "min_records": 6},
        "min_nontrivial_frac": 0.08,
        "rule": "histories over a pool of <= 7 OndriksMTBDD handles (leaf type int, or OrdVector<size_t> in 1/3 of the cases) over 6 variables: constructor (cube with don't-cares, value, default), constant, Apply1/2/3 with "
                "table-driven leaf operations (arbitrary functions, max, min), Project (variable set, idempotent combiner max/min), Rename (strictly increasing map), ExtendWith (prefix cube above all variables of the operand), "
                "GetMtbddForPrefix (concrete prefix), copy, assignment, destruction, VoidApply1/2 (visited leaves / leaf pairs = co-occurring values). After EVERY step GetValue on all 64 total assignments of every live handle "
                "is compared with a truth-table model, operator==/!= between every pair of live handles must coincide with equality of the tables, and GetPaths of one handle must be a partition of the assignment space with the "
                "right values; results of node-constructing operations (constructor, Project, Rename, ExtendWith, GetMtbddForPrefix, and a quarter of the others) must be EQUAL to the MTBDD rebuilt for the same truth table from constants "
                "and if-then-else applies; functor objects are re-used across calls. A sixteenth of the histories use crowds of 40-70 000 references as in C18. Non-trivial: the history contains an apply whose operands share sub-graphs and produces a function with >= 3 distinct leaves. Distinct: hash of the history.",
        "assumptions": COMMON_ASSUMPTIONS + ["Project only with idempotent commutative associative combiners; Rename only with strictly increasing maps; ExtendWith only above all variables of the operand (the documented/observed domains)"],
    },
    "C18": {
        "harness": "c18",
        "quick": {"workers": 8, "cases": 2000, "size": 50, "min_records": 8},
        "thorough": {"workers": 16, "cases": 8000, "size": 70, "min_records": 8},
        "min_nontrivial_frac": 0.3,
        "rule": "histories over a pool of heap-allocated MTBDD handles: construct, constant, copy, assignment (incl. self-assignment and between handles sharing a root), "
                "Apply1/2/3 and Project through functor OBJECTS that are re-used across calls (as library code does), destruction in generated order (also implicit destruction by overwriting a pool slot), read-only visitors; after every step all live handles must still equal their truth tables (ASan: no "
                "use-after-free / double free); at the end every handle is destroyed and the sizes of the leaf and internal unique tables (hook LIBVATA_VERIF) must equal their values before the history. "
                "A sixth of the histories turn copy steps into CROWDS: 40-70 000 extra references to one node (copies of one handle, or one-cube diagrams sharing the default leaf), of which a generated part is released while the pool stays alive. Non-trivial: a handle sharing nodes with a live one is destroyed and the survivor is read afterwards. Distinct: hash of the history.",
        "assumptions": COMMON_ASSUMPTIONS + ["the size law is asserted for the two thirds of the histories that use only construction, copy, assignment, apply and destruction; the others also use Project / Rename / ExtendWith / GetMtbddForPrefix (which may leave unreferenced nodes by design) and are checked for values and by ASan only"],
    },
    "C13": {
        "harness": "c13",
        "custom": "c13",
        "quick": {"workers": 8, "cases": 2000, "size": 24, "fuzz_jobs": 4, "fuzz_seconds": 60},
        "thorough": {"workers": 16, "cases": 8000, "size": 36, "fuzz_jobs": 16, "fuzz_seconds": 300},
        "min_nontrivial_frac": 0.2,
        "rule": "(a) generated AutDescriptions (state/symbol names of 1-6 printable ASCII characters without whitespace, ( ) , : and the substring '->'; nullary rules; empty final/symbol/state sections; empty automaton name): "
                "ParseString(Serialize(d)) == d under the library's relaxed equality, twice, and the same description written by the harness in another textual form (nullary rules with parentheses, missing or re-ordered "
                "sections, extra blank lines/spaces) parses to the same description; (b) for each of the four encodings: load with a state dictionary, dump, load the dump into a fresh automaton/dictionary, dump again - both dumps "
                "(read by the harness' own reader) carry the same rules, final states and names, and the first dump carries what was loaded (FA: a start state with several start symbols keeps one); for the bottom-up BDD encoding also the \"symbolic\" mode: text -> symbolic dump -> symbolic load -> ordinary dump must give back the named rules; (c) libFuzzer (ASan+UBSan) "
                "feeds arbitrary bytes to TimbukParser::ParseString and to LoadFromString of all four classes with fresh private alphabets per iteration: only std::exception may escape; successful parses go through (a). "
                "Non-trivial (a,b): >= 1 nullary and >= 1 non-nullary rule and a state name with punctuation; (c): inputs that parse successfully and reach the transition section are counted separately. Distinct: hash of the case text / of the fuzz input.",
        "assumptions": COMMON_ASSUMPTIONS + ["leaks are not part of the property (detect_leaks=0)", "libFuzzer campaigns are pinned only approximately by -seed/-runs; the saved crash input is the reproducible unit"],
    },
}

PROPS["C19"] = {
    "harness": "c19",
    "quick": {"workers": 8, "cases": 300, "size": 22, "lib_timeout": 5},
    "thorough": {"workers": 16, "cases": 800, "size": 30, "lib_timeout": 20},
    "min_nontrivial_frac": 0.3,
    "min_tag_frac": {"source:repository-corpus": 0.05},
    "rule": GEN_TA + "7/8 of the cases are generated pairs, 1/8 are pairs/triples of the automata shipped in the repository (tests/aut_timbuk_smaller, automata/small_timbuk, automata/moderate_artmc_timbuk). A twin of every operand is "
            "rebuilt through AddTransition with a generated state bijection, a generated rule insertion order and a fresh private alphabet with the symbols registered in a generated order. Relations: every inclusion selection and "
            "IsLangEmpty answer the same on the pair and on its twin; ComputeSimulation (downward on the automaton, upward on its trimmed form) on two different dense numberings relates the same pairs of original states; Reduce, "
            "RemoveUselessStates and RemoveUnreachableStates produce the same numbers of states and rules; 18 language laws (A<=A, A<=AuB, AnB<=A for both intersections, chains (AuB)uC, A equivalent to Reduce(A), trimmed, re-indexed, "
            "dumped-and-reloaded) hold under every selection; all selections agree; transitivity as an implication. Repository cases run one upward and one downward selection under a per-call budget (a slow call is inconclusive). "
            "Non-trivial: the bijection moves a state and the automaton has a rule of arity >= 2. Distinct: hash of the case text.",
    "assumptions": COMMON_ASSUMPTIONS + ["no reference oracle is used here: a defect that is invariant under renaming and respects the laws is invisible to this check (C01-C05 cover those on small inputs)"],
}

PROPS["C20"] = {
    "harness": "c20",
    "custom": "c20",
    "quick": {"workers": 8, "cases": 300, "size": 36, "min_records": 30, "lib_timeout": 20, "reuse_scale": 0.1, "fuzz_jobs": 4, "fuzz_seconds": 60,
              "memcheck_generated": 100, "memcheck_corpus": 60},
    "thorough": {"workers": 16, "cases": 2000, "size": 50, "min_records": 34, "lib_timeout": 30, "reuse_scale": 0.3, "fuzz_jobs": 16, "fuzz_seconds": 300,
                 "memcheck_generated": 400, "memcheck_corpus": 1200},
    "min_nontrivial_frac": 0.1,
    "rule": "(0) every other harness (C01-C19) re-run in sanitizer-only mode on a fraction of its budget (semantic oracles ignored, a sanitizer report or crash in a library call is the only failure); (a) generated workloads "
            "mixing the explicit tree, explicit word, BDD bottom-up and BDD top-down encodings in one process: load/build with dense/sparse/disjoint numbers, copies, assignment, Union, UnionDisjointStates (only on disjoint state sets), "
            "Intersection(BU), trimming, Reduce, Complement, GetCandidateTree, downward simulation (CLI re-indexing), upward simulation (only on reference-trimmed dense input), all 8 explicit / 2 BU / 2 TD / 3 FA inclusion selections through "
            "their protocols, FA Reverse and witness, the CLI dictionary helpers after -s/-p pruning, dumps, destruction in between - under ASan+UBSan; (b) the same workload decoded from bytes in a structure-aware libFuzzer target, seeded "
            "with generated workloads; (c) generated workloads, the largest fuzz corpus inputs and the committed regression inputs replayed under valgrind memcheck on a build without sanitizers (uninitialised values, which ASan/UBSan "
            "cannot see). Leak detection is off (leaks are not in the property). Non-trivial (a): >= 6 distinct operation kinds over >= 2 encodings including a BDD product and an inclusion with simulation. Distinct: hash of the workload.",
    "assumptions": COMMON_ASSUMPTIONS + ["every workload honours the documented preconditions (see harness/workload.hh); exceptions are clean rejections", "a hang is not a memory error: timeouts are ignored here (C01/C07/C09 own the verdict-is-returned claim)"],
}

LEVEL_TEXT = {
    "C01": "Generated-input search with an exact, independently written inclusion oracle: thousands of small automaton pairs per run, each through all 8 selections (+ unprepared operands). Finds wrong verdicts, exceptions, hangs and memory errors on small witnesses; establishes nothing beyond the explored pairs.",
    "C02": "Generated pairs with overlapping/disjoint numbering; result language, semantic meaning of the translation maps, operand immutability and the CLI naming flow judged against reference union/product. Exploration of small automata only.",
    "C03": "Generated automata with injected dead-state shapes; language preservation and absence of dead states/rules judged on the result with reference fixpoints. Exploration only.",
    "C04": "Every entry of the returned relation compared with a naive greatest-fixpoint computation straight from the definition, under generated permutations of the state numbers. Exploration of automata with <= 8 states.",
    "C05": "Language equality by exact reference inclusion, size bounds, and existence of a state map onto the result (representative map or bounded brute-force search). Exploration only.",
    "C06": "Complement judged by two exact language checks (empty intersection, universality of the union over the alphabet read back from the automaton) plus enumeration of small trees. Exponential construction: automata with <= 4 states.",
    "C07": "As C01 for both BDD encodings, with generators shaped for the macro-state handling of the upward algorithm; unimplemented selections must throw. Exploration of small pairs.",
    "C08": "Model-based stateful testing: operation histories over handles sharing transition tables, every step judged from the operand dumps taken immediately before the call. Exploration of histories up to 24 steps.",
    "C09": "NFA pairs against an exact subset-construction oracle for the three implemented selections, with a watchdog that turns non-termination on tiny inputs into a violation. Exploration only.",
    "C10": "FA operations judged by exact language comparison of the dumped result with reference union/product/mirror; witness judged by sub-language + non-emptiness. Exploration only.",
    "C11": "Model-based stateful testing over pools of tree and word automata: after every step every live handle is read back and compared with its model value; recorded calls are repeated on fresh operands. Exploration of histories up to 32 steps.",
    "C12": "Model-based stateful testing of one automaton against a set-of-rules model: all read-only views are compared after every mutating call. Exploration of histories up to ~70 steps.",
    "C13": "Round-trip oracles over generated descriptions and all four encodings, plus coverage-guided byte-level fuzzing of parser and loaders under ASan/UBSan with the round-trip oracle inside the target. Exploration; absence of crashing inputs is not established.",
    "C14": "Set equality of the result with the image automaton computed by the model, for every renaming entry point and map kind. Exploration only.",
    "C15": "Witness automaton judged by exact reference inclusion and emptiness, with generators for deep shortest trees and unproductive final states. Exploration only.",
    "C16": "Every entry of the computed relation compared with a naive greatest simulation inside the given block preorder. Exploration of LTSs with <= 14 states.",
    "C17": "Model-based stateful testing with a truth-table model: all 64 assignments of every live MTBDD and pairwise canonicity after every step. Exploration of 6-variable functions.",
    "C18": "Model-based stateful testing of handle lifetime under ASan, plus the node-store size law checked through a guarded hook after destroying every handle. Exploration of histories up to ~70 steps.",
    "C19": "Metamorphic relations (renaming, insertion order, symbol registration order, language laws, agreement of all selections) on generated automata and on the repository's real-world corpus, where no reference oracle is affordable. Exploration only.",
    "C20": "Sanitizer-oracle exploration: every other harness re-run in sanitizer-only mode, a mixed-encoding workload generator, a structure-aware libFuzzer target and valgrind memcheck for uninitialised reads. Sees only the executions generated.",
}

TECHNIQUE = {
    "C01": "property-based testing (rapidcheck): differential against an exact reference inclusion oracle over generated automaton pairs and all parameter selections",
    "C02": "property-based testing (rapidcheck): reference union/product oracle, semantic check of translation maps, operand read-back",
    "C03": "property-based testing (rapidcheck): language-preservation and no-dead-state post-conditions against reference fixpoints",
    "C04": "property-based testing (rapidcheck): differential against naive greatest-fixpoint simulations under generated renumberings",
    "C05": "property-based testing (rapidcheck): reference language equality + size bounds + image-map validity predicate",
    "C06": "property-based testing (rapidcheck): reference emptiness/universality oracles + bounded tree enumeration",
    "C07": "property-based testing (rapidcheck): differential against the exact reference verdict for both BDD encodings; must-throw sweep over parameter words",
    "C08": "model-based stateful property testing (rapidcheck): operation histories with per-step language oracles from observed operand dumps",
    "C09": "property-based testing (rapidcheck): differential against an exact NFA inclusion oracle, watchdog for non-termination",
    "C10": "property-based testing (rapidcheck): reference union/product/mirror oracles on dumped results",
    "C11": "model-based stateful property testing (rapidcheck): value model per handle checked after every step; repeat-on-fresh-operands metamorphic check",
    "C12": "model-based stateful property testing (rapidcheck): set-of-rules model vs. every read-only view after every step",
    "C13": "property-based testing (rapidcheck round trips) + coverage-guided fuzzing (libFuzzer, ASan/UBSan) with the round-trip oracle in the target",
    "C14": "property-based testing (rapidcheck): exact image-automaton oracle for every renaming entry point",
    "C15": "property-based testing (rapidcheck): sub-language and non-emptiness oracle for the witness automaton",
    "C16": "property-based testing (rapidcheck): differential against a naive greatest simulation inside the initial preorder",
    "C17": "model-based stateful property testing (rapidcheck): truth-table model, pointwise values and pairwise canonicity after every step",
    "C18": "model-based stateful property testing (rapidcheck) under ASan + node-store size invariant via a guarded hook",
    "C19": "metamorphic property-based testing (rapidcheck): renaming / reordering invariance and language laws on generated and repository automata",
    "C20": "sanitizer-oracle fuzzing: rapidcheck workloads, structure-aware libFuzzer target, valgrind memcheck replay",
}

NOT_APPLICABLE = [p for p in (
    {"property_id": "C19", "reason": "check under construction in this revision (metamorphic harness not committed yet); will be claimed once built"},
    {"property_id": "C20", "reason": "check under construction in this revision (sanitizer-only re-use mode, workload fuzzer and memcheck tier not committed yet); will be claimed once built"},
) if p["property_id"] not in PROPS]
