"""Per-property configuration of the driver: harness, budgets, non-triviality rule."""

GEN_TA = ("rapidcheck generates a list of 8-integer records; a pure decoder turns it into tree automata over the ranked pool "
          "a,b,c,d:0 g,h:1 f,k:2 t:3 with chosen state numbers (identity/reversed/permuted/sparse/offset) and rule insertion order; ")

COMMON_ASSUMPTIONS = [
    "library built from /repo's working tree with clang++ -O1 -DNDEBUG -DLIBVATA_VERIF, ASan+UBSan (asserts are not part of the oracle)",
    "each case runs in a forked child (pristine global alphabets / caches); verdict judged against reference models in engine/ref_*.hh",
    "exploration only: small automata, bounded case counts; absence of violations beyond the explored cases is not established",
]

PROPS = {
    "C01": {
        "harness": "c01",
        "quick": {"workers": 8, "cases": 1200, "size": 26},
        "thorough": {"workers": 16, "cases": 15000, "size": 40},
        "min_nontrivial_frac": 0.25,
        "min_tag_frac": {"verdict:included": 0.15, "verdict:not-included": 0.15},
        "rule": GEN_TA + "pairs (A,B) built by strategies indep/superset/ablate/split/leafmiss/detB/degenerate; every case runs the 8 implemented "
                "InclParam selections through the CLI protocol (+ the 4 NOSIM ones and the default on unprepared operands) and compares each verdict with "
                "an exact reference (pair exploration (q,S), witness re-validated). Non-trivial: L(A) and L(B) non-empty and some accepting run of A uses "
                "a non-nullary rule. Distinct: hash of the canonical case text.",
        "assumptions": COMMON_ASSUMPTIONS + ["simulation selections are driven through SanitizeAutsForInclusion + UnionDisjointStates + ComputeSimulation exactly like cli/operations.hh"],
    },
}
