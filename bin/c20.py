"""C20: memory safety / UB.  (0) every other harness in sanitizer-only mode, (a) mixed workload generator,
(b) structure-aware libFuzzer target, (c) valgrind memcheck replay for uninitialised reads."""
import concurrent.futures as cf
import os
import re
import shutil
import subprocess

REUSE = ["C01", "C02", "C03", "C04", "C05", "C06", "C07", "C08", "C09", "C10", "C11", "C12", "C13", "C14", "C15", "C16", "C17", "C18", "C19"]


def _valgrind(exe, files, env):
    cmd = ["valgrind", "-q", "--error-exitcode=9", "--track-origins=yes", "--leak-check=no", "--num-callers=12", exe] + files
    return subprocess.run(cmd, env=env, stdout=subprocess.PIPE, stderr=subprocess.STDOUT, text=True, errors="replace")


def memcheck(drv, pid, files, artdir, jobs):
    """Replays the inputs under valgrind in parallel chunks; returns (violations, replays_done)."""
    exe = drv.build_plain_replayer("fuzz_ops")
    env = dict(os.environ)
    chunks = [files[i::jobs] for i in range(jobs)]
    chunks = [c for c in chunks if c]
    found = []
    with cf.ThreadPoolExecutor(max_workers=jobs) as ex:
        results = list(ex.map(lambda c: (c, _valgrind(exe, c, env)), chunks))
    for chunk, r in results:
        if r.returncode != 9:
            continue
        # locate one offending input of the chunk (linear, the chunk is small)
        for f in chunk:
            r1 = _valgrind(exe, [f], env)
            if r1.returncode == 9:
                m = re.search(r"(Conditional jump or move depends on uninitialised value|Use of uninitialised value|Invalid (read|write)|Invalid free|Mismatched free|Syscall param[^\n]*uninitialised)[^\n]*\n(?:==\d+==\s+(?:at|by) [^\n]*\n)+", r1.stdout)
                frames = re.findall(r"(?:at|by) 0x[0-9A-F]+: ([^\n]*)", m.group(0)) if m else []
                lib = [fr for fr in frames if "VATA" in fr or "/repo/" in fr]
                where = (lib[0] if lib else (frames[0] if frames else "unknown")).split("(")[0].strip()
                kind = "uninitialised" if (m and "ninitialised" in m.group(0)) else "invalid-access"
                dst = os.path.join(artdir, "memcheck-" + os.path.basename(f))
                shutil.copy(f, dst)
                open(dst + ".log", "w").write(r1.stdout[-8000:])
                found.append({"sig": f"valgrind:{kind}:{where}", "msg": (m.group(0)[:900] if m else r1.stdout[-900:]), "replay": dst})
                break
    return found, sum(len(c) for c in chunks)


def check(drv, pid, spec, tier, seed, t0):
    cfg = spec[tier]
    problems, confirmed, unreproduced = [], [], []
    dumpdir = os.path.join(drv.BUILD, "run", f"{pid}-dump-{os.getpid()}")
    shutil.rmtree(dumpdir, ignore_errors=True)
    os.makedirs(dumpdir)

    # (a) workload generator
    merged = drv.run_harness_tier(pid, spec, tier, seed, extra_args=["--dump-dir", dumpdir])
    c1, u1 = drv.confirm_failures(pid, merged)
    confirmed += c1
    unreproduced += u1
    cov = drv.coverage_from(merged, spec, tier)
    problems += drv.health_problems(merged, spec, tier)
    known = merged["known"]
    shutil.rmtree(merged["rundir"], ignore_errors=True)

    # (0) the other harnesses in sanitizer-only mode
    reuse = {}
    for other in REUSE:
        ospec = drv.PROPS[other]
        sub = dict(ospec)
        # always the other harness' QUICK budget, scaled (quick: 0.1, thorough: 0.3): its thorough budget belongs to its own check
        m = drv.run_harness_tier(pid, sub, "quick", seed, sanitizer_only=True, harness=ospec["harness"], scale=cfg["reuse_scale"], label=other)
        c, u = drv.confirm_failures(pid, m)
        for f in c + u:
            f["sig"] = other.lower() + ":" + f["sig"]
        confirmed += c
        unreproduced += u
        reuse[other] = {"evaluations": m["evaluations"], "failures": len(m["failures"]), "timeouts": m["timeouts"]}
        cov["evaluations"] += m["evaluations"]
        if m["missing_workers"] or m["errors"]:
            problems.append(f"sanitizer-only run of {other}: workers missing or machinery errors")
        shutil.rmtree(m["rundir"], ignore_errors=True)
    cov["sanitizer_only_reuse"] = reuse

    # (b) structure-aware fuzzing, seeded with generated workloads
    seeds = os.path.join(drv.VERIF, "fuzz", "seeds", "ops")
    seeddir = os.path.join(dumpdir, "seeds")
    os.makedirs(seeddir)
    dumped = sorted(f for f in os.listdir(dumpdir) if f.endswith(".bin"))
    for f in dumped[:300]:
        shutil.copy(os.path.join(dumpdir, f), seeddir)
    if os.path.isdir(seeds):
        for f in os.listdir(seeds):
            shutil.copy(os.path.join(seeds, f), seeddir)
    fz = drv.run_fuzz_campaign(pid, "fuzz_ops", cfg["fuzz_jobs"], cfg["fuzz_seconds"], seed, seeddir, None, max_len=1024,
                               extra_args=["-timeout=25"])
    for c in fz["crashes"]:
        r = subprocess.run([fz["exe"], c], env=fz["env"], stdout=subprocess.PIPE, stderr=subprocess.STDOUT, text=True, errors="replace")
        m = re.search(r"SUMMARY: [^\n]*", r.stdout)
        f = {"sig": "fuzz:ops:crash", "msg": "libFuzzer artifact: " + (m.group(0)[:400] if m else "see " + c + ".log"), "replay": c}
        (confirmed if r.returncode != 0 else unreproduced).append(f)
    cov["evaluations"] += fz["execs"]
    nt_fuzz = fz["corpus_stats"].get("nontrivial", 0)
    cov["distinct_nontrivial"] += nt_fuzz
    cov["fuzz"] = {"target": "fuzz/fuzz_ops.cc", "jobs": cfg["fuzz_jobs"], "seconds_per_job": cfg["fuzz_seconds"], "execs": fz["execs"], "counters": fz["stats"],
                   "final_corpus_files": fz["corpus_files"], "distinct_nontrivial_corpus_inputs": nt_fuzz, "crash_artifacts": len(fz["crashes"]),
                   "timeouts_oom_slow_units_ignored_as_noise": fz["noise"] + len(fz["hangs"])}
    if fz["execs"] < 200:
        problems.append(f"fuzz campaign executed only {fz['execs']} workloads")

    # (c) valgrind memcheck on an uninstrumented build: generated workloads, fuzz corpus, regression inputs
    files = [os.path.join(dumpdir, f) for f in dumped[:cfg["memcheck_generated"]]]
    corp = []
    for d in sorted(os.listdir(fz["rundir"])):
        cd = os.path.join(fz["rundir"], d)
        if d.startswith("corpus") and os.path.isdir(cd):
            corp += [os.path.join(cd, f) for f in sorted(os.listdir(cd))]
    corp.sort(key=os.path.getsize, reverse=True)
    files += corp[:cfg["memcheck_corpus"]]
    if os.path.isdir(seeds):
        files += [os.path.join(seeds, f) for f in sorted(os.listdir(seeds))]
    artdir = os.path.join(drv.REPLAY_ROOT, pid)
    os.makedirs(artdir, exist_ok=True)
    vfound, vdone = memcheck(drv, pid, files, artdir, 16)
    seen = set()
    for f in vfound:
        if f["sig"] in seen:
            continue
        seen.add(f["sig"])
        if any(drv_sig_match(k["signature"], f["sig"]) for k in known):
            cov.setdefault("known_findings_hit", {})[f["sig"]] = cov.get("known_findings_hit", {}).get(f["sig"], 0) + 1
        else:
            confirmed.append(f)
    cov["evaluations"] += vdone
    cov["memcheck"] = {"replays": vdone, "errors": len(vfound), "tool": "valgrind --track-origins=yes --error-exitcode=9 on a g++ -O1 build without sanitizers"}
    if vdone < 20:
        problems.append(f"memcheck replayed only {vdone} workloads")
    shutil.rmtree(fz["rundir"], ignore_errors=True)
    shutil.rmtree(dumpdir, ignore_errors=True)
    return drv.finish(pid, tier, seed, spec, cov, t0, confirmed, unreproduced, known, problems)


def drv_sig_match(pat, sig):
    return pat == sig or (pat.endswith("*") and sig.startswith(pat[:-1]))


def replay(drv, pid, spec, path):
    with open(path, "rb") as f:
        head = f.read(64)
    env = dict(os.environ)
    if head.startswith(b"# property"):
        other = head.split()[2].decode()
        if other == pid:
            return None
        # a sanitizer-only replay of another property's harness
        bdir = drv.build_library("asan")
        exe = drv.build_harnesses("asan", bdir, drv.PROPS[other]["harness"])
        env.update(drv.SAN_ENV)
        tmp = os.path.join(drv.BUILD, "run", f"replay-{os.getpid()}")
        os.makedirs(tmp, exist_ok=True)
        r = subprocess.run([exe, "--replay", path, "--sanitizer-only", "--tmp-dir", tmp], env=env, stdout=subprocess.PIPE, stderr=subprocess.STDOUT, text=True, errors="replace")
        shutil.rmtree(tmp, ignore_errors=True)
        print(r.stdout)
        if r.returncode == 1:
            print(f"VIOLATION property={pid} replay={path}")
            return 1
        return 0 if r.returncode == 0 else 2
    if os.path.basename(path).startswith("memcheck-"):
        exe = drv.build_plain_replayer("fuzz_ops")
        r = _valgrind(exe, [path], env)
        print(r.stdout[-4000:])
        if r.returncode == 9:
            print(f"VIOLATION property={pid} replay={path}")
            return 1
        return 0
    exe = drv.build_fuzz_target("fuzz_ops")
    env.update(drv.FUZZ_ENV)
    r = subprocess.run(["timeout", "200", exe, "-timeout=180", path], env=env, stdout=subprocess.PIPE, stderr=subprocess.STDOUT, text=True, errors="replace")
    print(r.stdout[-4000:])
    if r.returncode != 0:
        print(f"VIOLATION property={pid} replay={path}")
        return 1
    return 0
