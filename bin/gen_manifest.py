#!/usr/bin/env python3
"""Regenerates MANIFEST.json from bin/props.py (single source of truth)."""
import json
import os
import subprocess
import sys

VERIF = os.path.dirname(os.path.dirname(os.path.abspath(__file__)))
sys.path.insert(0, os.path.join(VERIF, "bin"))
from props import PROPS, LEVEL_TEXT, TECHNIQUE, NOT_APPLICABLE  # noqa: E402

hooks = subprocess.check_output(["git", "-C", os.environ.get("VERIF_REPO", "/repo"), "log", "--format=%H", "--grep", "^verif hook"]).decode().split()
checks = []
for pid in sorted(PROPS):
    spec = PROPS[pid]
    engine = "rc-harness"
    if pid == "C13":
        engine = "rc-harness + libfuzzer"
    if pid == "C20":
        engine = "rc-harness + libfuzzer + memcheck"
    checks.append({
        "property_id": pid,
        "quick_cmd": f"bin/check {pid} --tier quick",
        "thorough_cmd": f"bin/check {pid} --tier thorough",
        "evidence_file": f"evidence/{pid}.json",
        "replay_cmd_template": f"bin/check {pid} --replay {{path}}",
        "engine": engine,
        "level_claimed": {"category": "exploration", "text": LEVEL_TEXT[pid], "design_ref": f"DESIGN.md §4 ({pid})"},
        "level_note": "Trusted base: the reference models in engine/ref_*.hh (self-checked against brute-force enumeration by `bin/check --setup`), the decoders, rapidcheck/libFuzzer, "
                      "clang sanitizers. Assumes " + "; ".join(spec.get("assumptions", [])[-2:]),
        "technique": TECHNIQUE[pid],
    })
m = {
    "version": 1,
    "setup_cmd": "bin/check --setup",
    "hooks": {
        "guard": "LIBVATA_VERIF",
        "enable": "bin/check compiles every library, harness and fuzz translation unit from /repo's working tree with -DLIBVATA_VERIF (no CMake involved)",
        "baseline_off_cmd": "bin/baseline_off.sh",
        "source_commits": hooks,
        "add_only": True,
    },
    "engines": [
        {"name": "rc-harness", "path": "engine/ harness/", "serves_properties": sorted(PROPS),
         "kind_free_text": "rapidcheck generates lists of 8-integer records; pure decoders build automata / histories; one forked ASan+UBSan child per case runs the library and judges it against reference models; shrinking, replay files, per-worker evidence"},
        {"name": "libfuzzer", "path": "fuzz/", "serves_properties": ["C13", "C20"],
         "kind_free_text": "coverage-guided in-process fuzzing (clang -fsanitize=fuzzer,address,undefined) of the text loaders (byte level) and of operation histories (structure-aware decode) with oracles inside the target"},
        {"name": "memcheck", "path": "bin/c20.py", "serves_properties": ["C20"],
         "kind_free_text": "valgrind memcheck replay of generated workloads on an uninstrumented build for uninitialised-value errors (invisible to ASan/UBSan)"},
        {"name": "driver", "path": "bin/check", "serves_properties": sorted(PROPS),
         "kind_free_text": "builds the library from /repo's working tree (content-hash cache), fans out workers, merges evidence, confirms failures by replay, applies known_findings.json"},
    ],
    "checks": checks,
    "not_applicable": NOT_APPLICABLE,
    "notes": "Exit codes: 0 held on everything explored; 1 violation (VIOLATION line); 2 machinery problem (never a statement about the property). VERIF_SEED / VERIF_TIER are honoured. Technique family: property-based testing and fuzzing only.",
}
with open(os.path.join(VERIF, "MANIFEST.json"), "w") as f:
    json.dump(m, f, indent=1)
print("MANIFEST.json written:", len(checks), "checks")
