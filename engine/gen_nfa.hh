// Decoders Raw -> NFAs / NFA pairs (strategy mix analogous to gen_ta.hh)
#pragma once
#include "gen_ta.hh"
#include "ref_nfa.hh"

namespace gen {

using ref::NFA;

enum NStrategy { N_INDEP = 0, N_SUPERSET, N_ABLATE, N_SPLIT, N_SYMMISS, N_DEGENERATE, N_NSTRATEGIES };
inline const char* nstrategy_name(int s)
{
	static const char* n[] = {"indep", "superset", "ablate", "split", "symmiss", "degenerate"};
	return n[s];
}

// stateful decoder of one NFA: 3 of 4 edges start in a state already reached
struct NfaBuilder {
	int n, ns;
	NFA a;
	std::vector<int> reached;
	std::map<std::tuple<int,int,int>, uint32_t> aux;
	NfaBuilder(int n_, int ns_) : n(n_), ns(ns_) {}
	void reach(int q) { if (std::find(reached.begin(), reached.end(), q) == reached.end()) reached.push_back(q); }
	void start(int q) { a.starts.insert(q); reach(q); }
	void item(const Rec& r)
	{
		const uint32_t kind = r[0] % 8;
		const bool biased = ((r[0] / 32) % 4) != 3;
		auto pick = [&](uint32_t v) {
			if (biased && !reached.empty()) return reached[v % reached.size()];
			return static_cast<int>(v % static_cast<uint32_t>(n));
		};
		if (kind <= 4) {
			const int from = pick(r[2]);
			const int to = static_cast<int>(r[3] % static_cast<uint32_t>(n));
			auto e = std::make_tuple(from, static_cast<int>(r[1] % static_cast<uint32_t>(ns)), to);
			a.edges.insert(e);
			aux[e] = r[6];
			if (std::find(reached.begin(), reached.end(), from) != reached.end()) reach(to);
		}
		else if (kind == 5) start(static_cast<int>(r[2] % static_cast<uint32_t>(n)));
		else a.finals.insert(pick(r[2]));
	}
};

struct NfaPairCase {
	NFA A, B;
	int strategy = 0;
	bool swapped = false;
	int nA = 1, nB = 1, ns = 1;
	Numbering numA, numB;
	Rec header{};
};

inline NFA nfa_perm(const NFA& a, int n, uint32_t seed)
{
	std::vector<int> p(static_cast<size_t>(n));
	for (int i = 0; i < n; ++i) p[static_cast<size_t>(i)] = i;
	for (int i = n - 1; i > 0; --i) {
		size_t j = static_cast<size_t>(mix(seed, static_cast<uint64_t>(i) + 500) % static_cast<uint64_t>(i + 1));
		std::swap(p[static_cast<size_t>(i)], p[j]);
	}
	std::map<int,int> m;
	for (int i = 0; i < n; ++i) m[i] = p[static_cast<size_t>(i)];
	return a.image(m);
}

// header: [0] strategy [1] nA [2] nB [3] #symbols [4] numbering A [5] numbering B [6] parameter [7] misc
inline NfaPairCase decode_nfa_pair(const Raw& raw, int maxStates, int maxSyms, const std::vector<int>& weights)
{
	NfaPairCase c;
	c.header = raw.empty() ? Rec{} : raw[0];
	const Rec& h = c.header;
	int total = 0;
	for (int w : weights) total += w;
	int pick = static_cast<int>(h[0] % static_cast<uint32_t>(total));
	for (int s = 0; s < N_NSTRATEGIES; ++s) {
		if (pick < weights[static_cast<size_t>(s)]) { c.strategy = s; break; }
		pick -= weights[static_cast<size_t>(s)];
	}
	c.nA = 1 + static_cast<int>(h[1] % static_cast<uint32_t>(maxStates));
	c.nB = 1 + static_cast<int>(h[2] % static_cast<uint32_t>(maxStates));
	c.ns = 1 + static_cast<int>(h[3] % static_cast<uint32_t>(maxSyms));
	const uint32_t par = h[6];
	const bool single = (c.strategy != N_INDEP && c.strategy != N_DEGENERATE);
	NfaBuilder ba(c.nA, c.ns), bb(c.nB, c.ns);
	if ((h[7] / 2) % 4 != 3) ba.start(0);
	if ((h[7] / 8) % 4 != 3) bb.start(0);
	for (size_t i = 1; i < raw.size(); ++i) {
		const Rec& r = raw[i];
		const uint32_t who = (r[0] / 8) % 4;
		const bool forB = single ? (who == 3) : (who >= 2);
		(forB ? bb : ba).item(r);
	}
	c.A = ba.a;
	const NFA& noise = bb.a;
	auto add_noise = [&](NFA& x) {
		x.edges.insert(noise.edges.begin(), noise.edges.end());
		x.finals.insert(noise.finals.begin(), noise.finals.end());
	};
	switch (c.strategy) {
		case N_INDEP: c.B = noise; break;
		case N_SUPERSET:
			c.nB = std::max(c.nA, c.nB);
			c.B = nfa_perm(c.A, c.nA, par);
			add_noise(c.B);
			break;
		case N_ABLATE: {
			c.nB = std::max(c.nA, c.nB);
			NFA base = c.A;
			const size_t ne = base.edges.size(), nf = base.finals.size(), nst = base.starts.size();
			if (ne + nf + nst > 0) {
				size_t k = (par / 4) % (ne + nf + nst);
				if (k < ne) { auto it = base.edges.begin(); std::advance(it, static_cast<long>(k)); base.edges.erase(it); }
				else if (k < ne + nf) { auto it = base.finals.begin(); std::advance(it, static_cast<long>(k - ne)); base.finals.erase(it); }
				else { auto it = base.starts.begin(); std::advance(it, static_cast<long>(k - ne - nf)); base.starts.erase(it); }
			}
			c.B = nfa_perm(base, c.nA, par);
			if (par % 4 >= 2) add_noise(c.B);
			break;
		}
		case N_SPLIT: {
			c.nB = 2 * c.nA;
			for (auto& e : c.A.edges) {
				uint32_t mask = ba.aux[e] % 16;
				if (mask == 0) mask = 1 | (ba.aux[e] ? 8u : 0u);
				for (uint32_t cp = 0; cp < 4; ++cp) {
					if (!((mask >> cp) & 1)) continue;
					c.B.edges.insert(std::make_tuple(2 * std::get<0>(e) + static_cast<int>(cp & 1), std::get<1>(e),
						2 * std::get<2>(e) + static_cast<int>((cp >> 1) & 1)));
				}
			}
			int i = 0;
			for (int q : c.A.starts) { uint32_t m = (par >> (2 * i++)) % 3; if (m != 2) c.B.starts.insert(2 * q); if (m != 1) c.B.starts.insert(2 * q + 1); }
			for (int q : c.A.finals) { uint32_t m = (par >> (2 * i++)) % 3; if (m != 2) c.B.finals.insert(2 * q); if (m != 1) c.B.finals.insert(2 * q + 1); }
			break;
		}
		case N_SYMMISS: {
			c.nB = std::max(c.nA, c.nB);
			c.B = nfa_perm(c.A, c.nA, par);
			add_noise(c.B);
			// A additionally uses a symbol B does not know
			const int from = ba.reached.empty() ? 0 : ba.reached[(par / 4) % ba.reached.size()];
			const int to = static_cast<int>((par / 64) % static_cast<uint32_t>(c.nA));
			c.A.edges.insert(std::make_tuple(from, c.ns, to));
			if (par % 2) c.A.finals.insert(to);
			break;
		}
		case N_DEGENERATE: {
			c.B = noise;
			switch (par % 8) {
				case 0: c.A = NFA(); break;
				case 1: c.B = NFA(); break;
				case 2: c.A.finals.clear(); break;
				case 3: c.B.finals.clear(); break;
				case 4: c.A.starts.clear(); break;
				case 5: c.B.starts.clear(); break;
				case 6: c.A.finals.insert(c.A.starts.begin(), c.A.starts.end()); break;   // eps in A
				case 7: c.A.edges.clear(); c.A.finals = c.A.starts; break;                 // L(A) = {eps}
			}
			break;
		}
	}
	c.swapped = (h[7] & 1) && c.strategy != N_INDEP;
	if (c.swapped) { std::swap(c.A, c.B); std::swap(c.nA, c.nB); }
	c.nA = std::max(c.nA, c.A.max_state() + 1);
	c.nB = std::max(c.nB, c.B.max_state() + 1);
	c.numA = make_numbering(h[4], c.nA, false);
	c.numB = make_numbering(h[5], c.nB, false);
	return c;
}

// Timbuk text of an NFA (start states as nullary rules of symbol x)
inline std::string nfa_to_timbuk(const NFA& a, const std::string& name = "A")
{
	std::ostringstream os;
	os << "Ops x:0";
	for (int s : a.symbols()) os << " " << ref::wsym(s) << ":1";
	os << "\nAutomaton " << name << "\nStates";
	for (int q : a.states()) os << " q" << q;
	os << "\nFinal States";
	for (int q : a.finals) os << " q" << q;
	os << "\nTransitions\n";
	for (int q : a.starts) os << "x -> q" << q << "\n";
	for (auto& e : a.edges) os << ref::wsym(std::get<1>(e)) << "(q" << std::get<0>(e) << ") -> q" << std::get<2>(e) << "\n";
	return os.str();
}

inline std::string describe_nfa_pair(const NfaPairCase& c)
{
	std::ostringstream os;
	os << "strategy " << nstrategy_name(c.strategy) << (c.swapped ? " (swapped)" : "") << "\n";
	os << "numbering A " << c.numA.str() << "\n" << nfa_to_timbuk(c.A, "A");
	os << "numbering B " << c.numB.str() << "\n" << nfa_to_timbuk(c.B, "B");
	return os.str();
}

} // namespace gen
