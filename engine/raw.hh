// Raw generated data: the only thing rapidcheck / libFuzzer ever generates.
// A case is a list of fixed-width records of small integers; every harness
// has a pure decode(Raw) -> Case.  Replay files store exactly this.
#pragma once
#include <array>
#include <cstdint>
#include <sstream>
#include <string>
#include <vector>

namespace eng {

constexpr size_t REC_W = 8;
using Rec = std::array<uint32_t, REC_W>;
using Raw = std::vector<Rec>;

inline std::string raw_to_text(const Raw& raw)
{
	std::ostringstream os;
	for (const Rec& r : raw) {
		os << "raw";
		for (uint32_t v : r) os << ' ' << v;
		os << '\n';
	}
	return os.str();
}

// accepts a whole case file: lines starting with "raw" carry data, everything
// else (comments, the human-readable rendering) is ignored
inline Raw raw_from_text(const std::string& text)
{
	Raw raw;
	std::istringstream is(text);
	std::string line;
	while (std::getline(is, line)) {
		if (line.compare(0, 3, "raw") != 0) continue;
		std::istringstream ls(line.substr(3));
		Rec r{};
		for (size_t i = 0; i < REC_W; ++i) {
			uint32_t v = 0;
			if (ls >> v) r[i] = v;
		}
		raw.push_back(r);
	}
	return raw;
}

// sequential reader with a "0 when exhausted" rule, so that shrinking (which
// removes records and lowers integers) always yields a decodable, simpler case
class Src {
	const Raw& raw_;
	size_t rec_;
public:
	explicit Src(const Raw& raw, size_t start = 0) : raw_(raw), rec_(start) {}
	bool more() const { return rec_ < raw_.size(); }
	size_t remaining() const { return rec_ < raw_.size() ? raw_.size() - rec_ : 0; }
	size_t pos() const { return rec_; }
	// next record (all-zero when exhausted)
	Rec next() { return rec_ < raw_.size() ? raw_[rec_++] : Rec{}; }
	Rec peek() const { return rec_ < raw_.size() ? raw_[rec_] : Rec{}; }
};

inline uint64_t fnv1a(const std::string& s)
{
	uint64_t h = 1469598103934665603ull;
	for (unsigned char c : s) { h ^= c; h *= 1099511628211ull; }
	return h;
}

} // namespace eng
