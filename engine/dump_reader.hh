// The harness' own reader for the text TimbukSerializer produces (NOT the
// library's TimbukParser: a parser change must fail C13 only).
#pragma once
#include "ref_nfa.hh"
#include "ref_ta.hh"

#include <stdexcept>

namespace dump {

struct Trans { std::string sym; std::vector<std::string> ch; std::string par; };
struct Desc {
	std::vector<std::pair<std::string,int>> ops;
	std::string name;
	std::vector<std::string> states, finals;
	std::vector<Trans> trans;
};

inline std::vector<std::string> words(const std::string& s)
{
	std::vector<std::string> w;
	std::istringstream is(s);
	std::string x;
	while (is >> x) w.push_back(x);
	return w;
}

inline std::string trim(const std::string& s)
{
	size_t b = s.find_first_not_of(" \t\r");
	if (b == std::string::npos) return "";
	size_t e = s.find_last_not_of(" \t\r");
	return s.substr(b, e - b + 1);
}

inline Desc parse(const std::string& text)
{
	Desc d;
	std::istringstream is(text);
	std::string line;
	bool inTrans = false;
	while (std::getline(is, line)) {
		if (!inTrans) {
			if (line.compare(0, 4, "Ops ") == 0 || line == "Ops") {
				for (auto& w : words(line.substr(3))) {
					size_t c = w.rfind(':');
					if (c == std::string::npos) d.ops.emplace_back(w, -1);
					else d.ops.emplace_back(w.substr(0, c), atoi(w.c_str() + c + 1));
				}
			}
			else if (line.compare(0, 10, "Automaton ") == 0) d.name = trim(line.substr(10));
			else if (line.compare(0, 12, "Final States") == 0) d.finals = words(line.substr(12));
			else if (line.compare(0, 6, "States") == 0) d.states = words(line.substr(6));
			else if (trim(line) == "Transitions") inTrans = true;
			else if (!trim(line).empty()) throw std::runtime_error("dump reader: unexpected line '" + line + "'");
			continue;
		}
		if (trim(line).empty()) continue;
		size_t arrow = line.rfind(" -> ");
		if (arrow == std::string::npos) throw std::runtime_error("dump reader: no arrow in '" + line + "'");
		Trans t;
		t.par = trim(line.substr(arrow + 4));
		std::string lhs = line.substr(0, arrow);
		size_t lp = lhs.find('(');
		if (lp == std::string::npos || lhs.empty() || lhs.back() != ')') t.sym = lhs;
		else {
			t.sym = lhs.substr(0, lp);
			std::string inner = lhs.substr(lp + 1, lhs.size() - lp - 2);
			size_t p = 0;
			while (p <= inner.size()) {
				size_t c = inner.find(", ", p);
				if (c == std::string::npos) c = inner.size();
				t.ch.push_back(inner.substr(p, c - p));
				p = c + 2;
			}
		}
		d.trans.push_back(t);
	}
	if (!inTrans) throw std::runtime_error("dump reader: no Transitions section");
	return d;
}

// state names -> ints
struct Names {
	std::map<std::string,int> id;
	std::vector<std::string> name;
	int operator()(const std::string& s)
	{
		auto it = id.find(s);
		if (it != id.end()) return it->second;
		int n = static_cast<int>(name.size());
		id[s] = n; name.push_back(s);
		return n;
	}
};

// numeric state names ("17") -> 17 (64-bit values are folded through Names when too large)
inline ref::TA to_ta(const Desc& d, Names& names, bool numeric)
{
	ref::TA t;
	auto st = [&](const std::string& s) -> int {
		if (numeric) {
			bool digits = !s.empty() && s.size() < 9;
			for (char c : s) if (c < '0' || c > '9') digits = false;
			if (digits) return atoi(s.c_str());
			return 100000000 + names(s);
		}
		return names(s);
	};
	for (auto& f : d.finals) t.finals.insert(st(f));
	for (auto& tr : d.trans) {
		ref::Rule r;
		r.sym = ref::symtab().id(tr.sym, static_cast<int>(tr.ch.size()));
		r.par = st(tr.par);
		for (auto& c : tr.ch) r.ch.push_back(st(c));
		t.rules.insert(r);
	}
	return t;
}

inline ref::TA to_ta_numeric(const std::string& text)
{
	Names n;
	return to_ta(parse(text), n, true);
}

// word automata: nullary rules are start states, unary rules are edges
inline ref::NFA to_nfa(const Desc& d, Names& names, bool numeric, std::map<std::string,int>* symIds = nullptr)
{
	ref::NFA a;
	auto st = [&](const std::string& s) -> int {
		if (numeric) {
			bool digits = !s.empty() && s.size() < 9;
			for (char c : s) if (c < '0' || c > '9') digits = false;
			if (digits) return atoi(s.c_str());
			return 100000000 + names(s);
		}
		return names(s);
	};
	std::map<std::string,int> localSyms;
	std::map<std::string,int>& syms = symIds ? *symIds : localSyms;
	auto sy = [&](const std::string& s) -> int {
		if (s.size() == 1 && s[0] >= 'a' && s[0] <= 'z') return s[0] - 'a';
		auto it = syms.find(s);
		if (it != syms.end()) return it->second;
		int n = 100 + static_cast<int>(syms.size());
		syms[s] = n;
		return n;
	};
	for (auto& f : d.finals) a.finals.insert(st(f));
	for (auto& tr : d.trans) {
		if (tr.ch.empty()) a.starts.insert(st(tr.par));
		else if (tr.ch.size() == 1) a.edges.insert(std::make_tuple(st(tr.ch[0]), sy(tr.sym), st(tr.par)));
		else throw std::runtime_error("dump reader: not a word automaton");
	}
	return a;
}

} // namespace dump
