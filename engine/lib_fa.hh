// Adapters between ref::NFA and VATA::ExplicitFiniteAut.  The class exposes no
// iteration, so automata are read through DumpToString and the harness' own
// dump reader.
#pragma once
#include "dump_reader.hh"
#include "gen_nfa.hh"

#include <vata/explicit_finite_aut.hh>
#include <vata/parsing/timbuk_parser.hh>
#include <vata/serialization/timbuk_serializer.hh>

namespace libfa {

using VATA::ExplicitFiniteAut;
using StateType = VATA::AutBase::StateType;

inline ExplicitFiniteAut::SymbolType sym(ExplicitFiniteAut& aut, const std::string& name)
{
	auto tr = aut.GetAlphabet()->GetSymbolTransl();
	return (*tr)(name);
}

// through the mutating API
inline ExplicitFiniteAut build(const ref::NFA& a, const gen::Numbering& num)
{
	ExplicitFiniteAut aut;
	const ExplicitFiniteAut::SymbolType x = sym(aut, "x");
	for (int q : a.starts) aut.SetStateStart(num(q), x);
	for (auto& e : a.edges)
		aut.AddTransition(num(std::get<0>(e)), sym(aut, ref::wsym(std::get<1>(e))), num(std::get<2>(e)));
	for (int q : a.finals) aut.SetStateFinal(num(q));
	return aut;
}

// through the Timbuk loader with a translator realising the numbering
inline ExplicitFiniteAut load(const ref::NFA& a, const gen::Numbering& num)
{
	ExplicitFiniteAut aut;
	VATA::Parsing::TimbukParser parser;
	VATA::AutBase::StateDict dict;
	VATA::AutBase::StringToStateTranslWeak transl(dict,
		[&num](const std::string& name) -> StateType { return num(atoi(name.c_str() + 1)); });
	aut.LoadFromString(parser, gen::nfa_to_timbuk(a), transl);
	return aut;
}

inline ref::NFA read(const ExplicitFiniteAut& aut)
{
	VATA::Serialization::TimbukSerializer ser;
	std::string text = aut.DumpToString(ser);
	dump::Names names;
	return dump::to_nfa(dump::parse(text), names, true);
}

inline ref::NFA lib_view(const ref::NFA& a, const gen::Numbering& num)
{
	std::map<int,int> m;
	for (int q : a.states()) m[q] = static_cast<int>(num(q));
	return a.image(m);
}

} // namespace libfa
