// Reference model for finite tree automata: naive, exponential where needed,
// written for tiny inputs.  Deliberately shares no algorithmic idea with the
// library (no antichains, no simulations, no preprocessing).
#pragma once
#include <algorithm>
#include <cstdint>
#include <functional>
#include <map>
#include <memory>
#include <set>
#include <sstream>
#include <string>
#include <vector>

namespace ref {

// ---------------------------------------------------------------- symbols
struct SymInfo { std::string name; int arity; };

// process-wide interner; ids 0..8 are the fixed ranked pool of DESIGN §3.4
class SymTab {
	std::vector<SymInfo> syms_;
	std::map<std::pair<std::string,int>, int> idx_;
public:
	SymTab()
	{
		const SymInfo pool[] = {{"a",0},{"b",0},{"c",0},{"d",0},{"g",1},{"h",1},{"f",2},{"k",2},{"t",3}};
		for (auto& s : pool) id(s.name, s.arity);
	}
	int id(const std::string& name, int arity)
	{
		auto key = std::make_pair(name, arity);
		auto it = idx_.find(key);
		if (it != idx_.end()) return it->second;
		syms_.push_back({name, arity});
		idx_[key] = static_cast<int>(syms_.size()) - 1;
		return static_cast<int>(syms_.size()) - 1;
	}
	const SymInfo& operator[](int i) const { return syms_[static_cast<size_t>(i)]; }
	int size() const { return static_cast<int>(syms_.size()); }
};
inline SymTab& symtab() { static SymTab t; return t; }
constexpr int POOL_SIZE = 9;
inline int arity(int sym) { return symtab()[sym].arity; }
inline const std::string& symname(int sym) { return symtab()[sym].name; }

// ---------------------------------------------------------------- automata
struct Rule {
	int sym;
	std::vector<int> ch;
	int par;
	bool operator<(const Rule& o) const
	{
		if (par != o.par) return par < o.par;
		if (sym != o.sym) return sym < o.sym;
		return ch < o.ch;
	}
	bool operator==(const Rule& o) const { return par == o.par && sym == o.sym && ch == o.ch; }
};

struct Tree {
	int sym;
	std::vector<std::shared_ptr<const Tree>> ch;
};
using TreeP = std::shared_ptr<const Tree>;

inline std::string show(const TreeP& t)
{
	if (!t) return "<none>";
	std::string s = symname(t->sym);
	if (!t->ch.empty()) {
		s += "(";
		for (size_t i = 0; i < t->ch.size(); ++i) { if (i) s += ","; s += show(t->ch[i]); }
		s += ")";
	}
	return s;
}

inline int depth(const TreeP& t)
{
	int d = 0;
	for (auto& c : t->ch) d = std::max(d, depth(c));
	return d + 1;
}

enum class Tri { NO = 0, YES = 1, UNKNOWN = 2 };

struct TA {
	std::set<Rule> rules;
	std::set<int> finals;

	void add(int sym, std::vector<int> ch, int par) { rules.insert(Rule{sym, std::move(ch), par}); }

	std::set<int> states() const
	{
		std::set<int> s(finals);
		for (auto& r : rules) { s.insert(r.par); s.insert(r.ch.begin(), r.ch.end()); }
		return s;
	}
	std::set<int> symbols() const
	{
		std::set<int> s;
		for (auto& r : rules) s.insert(r.sym);
		return s;
	}
	bool operator==(const TA& o) const { return rules == o.rules && finals == o.finals; }
	bool operator!=(const TA& o) const { return !(*this == o); }

	// states reachable bottom-up (some tree evaluates to them)
	std::set<int> productive() const
	{
		std::set<int> p;
		bool ch = true;
		while (ch) {
			ch = false;
			for (auto& r : rules) {
				if (p.count(r.par)) continue;
				bool ok = true;
				for (int c : r.ch) if (!p.count(c)) { ok = false; break; }
				if (ok) { p.insert(r.par); ch = true; }
			}
		}
		return p;
	}
	// states reachable top-down from a final state (through any rule)
	std::set<int> reachable() const
	{
		std::set<int> s(finals);
		bool ch = true;
		while (ch) {
			ch = false;
			for (auto& r : rules) {
				if (!s.count(r.par)) continue;
				for (int c : r.ch) if (s.insert(c).second) ch = true;
			}
		}
		return s;
	}
	bool empty_lang() const
	{
		auto p = productive();
		for (int f : finals) if (p.count(f)) return false;
		return true;
	}
	// useful = productive and reachable through rules all of whose children are productive
	std::set<int> useful() const
	{
		auto p = productive();
		std::set<int> s;
		for (int f : finals) if (p.count(f)) s.insert(f);
		bool ch = true;
		while (ch) {
			ch = false;
			for (auto& r : rules) {
				if (!s.count(r.par)) continue;
				bool ok = true;
				for (int c : r.ch) if (!p.count(c)) { ok = false; break; }
				if (!ok) continue;
				for (int c : r.ch) if (s.insert(c).second) ch = true;
			}
		}
		return s;
	}
	TA trim() const
	{
		auto u = useful();
		TA t;
		for (int f : finals) if (u.count(f)) t.finals.insert(f);
		for (auto& r : rules) {
			if (!u.count(r.par)) continue;
			bool ok = true;
			for (int c : r.ch) if (!u.count(c)) { ok = false; break; }
			if (ok) t.rules.insert(r);
		}
		return t;
	}
	// states a tree evaluates to
	std::set<int> eval(const TreeP& t) const
	{
		std::vector<std::set<int>> cs;
		for (auto& c : t->ch) cs.push_back(eval(c));
		std::set<int> res;
		for (auto& r : rules) {
			if (r.sym != t->sym || r.ch.size() != cs.size()) continue;
			bool ok = true;
			for (size_t i = 0; i < cs.size(); ++i) if (!cs[i].count(r.ch[i])) { ok = false; break; }
			if (ok) res.insert(r.par);
		}
		return res;
	}
	bool accepts(const TreeP& t) const
	{
		for (int q : eval(t)) if (finals.count(q)) return true;
		return false;
	}
	// image under a state map (states missing from the map are kept)
	TA image(const std::map<int,int>& m) const
	{
		auto f = [&m](int q) { auto it = m.find(q); return it == m.end() ? q : it->second; };
		TA t;
		for (int q : finals) t.finals.insert(f(q));
		for (auto& r : rules) {
			Rule n{r.sym, {}, f(r.par)};
			for (int c : r.ch) n.ch.push_back(f(c));
			t.rules.insert(n);
		}
		return t;
	}
	TA shifted(int off) const
	{
		std::map<int,int> m;
		for (int q : states()) m[q] = q + off;
		return image(m);
	}
	int max_state() const { auto s = states(); return s.empty() ? -1 : *s.rbegin(); }
	// same automaton with final set {q}
	TA rooted(int q) const { TA t(*this); t.finals = {q}; return t; }

	std::string str() const
	{
		std::ostringstream os;
		os << "F={";
		bool first = true;
		for (int f : finals) { os << (first ? "" : ",") << f; first = false; }
		os << "}";
		for (auto& r : rules) {
			os << " " << symname(r.sym);
			if (!r.ch.empty()) {
				os << "(";
				for (size_t i = 0; i < r.ch.size(); ++i) os << (i ? "," : "") << r.ch[i];
				os << ")";
			}
			os << "->" << r.par << ";";
		}
		return os.str();
	}
};

// disjoint union: states of b are shifted above those of a
inline TA union_disjoint(const TA& a, const TA& b, int* offset = nullptr)
{
	int off = a.max_state() + 1;
	if (offset) *offset = off;
	TA u(a);
	TA bs = b.shifted(off);
	u.rules.insert(bs.rules.begin(), bs.rules.end());
	u.finals.insert(bs.finals.begin(), bs.finals.end());
	return u;
}

// plain union of rule sets (operands assumed to have disjoint states)
inline TA union_plain(const TA& a, const TA& b)
{
	TA u(a);
	u.rules.insert(b.rules.begin(), b.rules.end());
	u.finals.insert(b.finals.begin(), b.finals.end());
	return u;
}

// product; state (p,q) is numbered p*(mb+1)+q via the returned encoder
inline TA product(const TA& a, const TA& b, std::map<std::pair<int,int>,int>* enc = nullptr)
{
	std::map<std::pair<int,int>,int> loc;
	std::map<std::pair<int,int>,int>& m = enc ? *enc : loc;
	auto id = [&m](int p, int q) {
		auto k = std::make_pair(p, q);
		auto it = m.find(k);
		if (it != m.end()) return it->second;
		int n = static_cast<int>(m.size());
		m[k] = n;
		return n;
	};
	TA r;
	for (auto& ra : a.rules) for (auto& rb : b.rules) {
		if (ra.sym != rb.sym || ra.ch.size() != rb.ch.size()) continue;
		Rule n{ra.sym, {}, id(ra.par, rb.par)};
		for (size_t i = 0; i < ra.ch.size(); ++i) n.ch.push_back(id(ra.ch[i], rb.ch[i]));
		r.rules.insert(n);
	}
	for (int fa : a.finals) for (int fb : b.finals) r.finals.insert(id(fa, fb));
	return r;
}

// ---------------------------------------------------------------- bitsets
struct BS {
	std::vector<uint64_t> w;
	explicit BS(size_t n = 0) : w((n + 63) / 64, 0) {}
	void set(size_t i) { w[i / 64] |= (1ull << (i % 64)); }
	bool test(size_t i) const { return (w[i / 64] >> (i % 64)) & 1; }
	bool operator<(const BS& o) const { return w < o.w; }
	bool operator==(const BS& o) const { return w == o.w; }
	bool intersects(const BS& o) const
	{
		for (size_t i = 0; i < w.size(); ++i) if (w[i] & o.w[i]) return true;
		return false;
	}
	bool any() const { for (auto x : w) if (x) return true; return false; }
	size_t count() const { size_t c = 0; for (auto x : w) c += static_cast<size_t>(__builtin_popcountll(x)); return c; }
};

// ---------------------------------------------------------------- exact inclusion
struct InclResult {
	Tri verdict = Tri::UNKNOWN;
	TreeP witness;          // a tree in L(A) \ L(B) when verdict == NO
	size_t pairs = 0;       // explored (state, macro-state) pairs
	size_t max_macro_per_state = 0; // max number of distinct macro-states met for one A-state
	std::map<int,size_t> macros_per_state;   // A-state -> number of distinct macro-states explored (also on NO / UNKNOWN)
};

// A ⊆ B ?   Explores pairs (q, S): some tree t evaluates to q in A and to
// exactly the set S in B.  No pruning of any kind.
inline InclResult included(const TA& A, const TA& B, size_t cap = 50000)
{
	InclResult res;
	// index B states
	std::map<int,size_t> bidx;
	for (int q : B.states()) { size_t n = bidx.size(); bidx[q] = n; }
	const size_t nb = bidx.size();
	BS bfin(nb);
	for (int f : B.finals) bfin.set(bidx[f]);
	// B rules per symbol
	std::map<int, std::vector<const Rule*>> brules;
	for (auto& r : B.rules) brules[r.sym].push_back(&r);

	struct Pair { int q; BS s; TreeP t; };
	std::vector<Pair> known;
	std::map<std::pair<int,BS>, size_t> seen;
	std::map<int, std::vector<size_t>> byState;

	bool refuted = false;
	auto finish = [&]() {
		res.pairs = known.size();
		for (auto& kv : byState) {
			res.macros_per_state[kv.first] = kv.second.size();
			res.max_macro_per_state = std::max(res.max_macro_per_state, kv.second.size());
		}
	};
	auto add = [&](int q, const BS& s, TreeP t) {
		if (refuted) return;
		auto key = std::make_pair(q, s);
		if (seen.count(key)) return;
		if (A.finals.count(q) && !s.intersects(bfin)) {
			refuted = true;
			res.verdict = Tri::NO;
			res.witness = t;
			return;
		}
		seen[key] = known.size();
		byState[q].push_back(known.size());
		known.push_back(Pair{q, s, t});
	};

	auto post = [&](int sym, const std::vector<const BS*>& sets) {
		BS out(nb);
		auto it = brules.find(sym);
		if (it == brules.end()) return out;
		for (const Rule* r : it->second) {
			if (r->ch.size() != sets.size()) continue;
			bool ok = true;
			for (size_t i = 0; i < sets.size(); ++i)
				if (!sets[i]->test(bidx[r->ch[i]])) { ok = false; break; }
			if (ok) out.set(bidx[r->par]);
		}
		return out;
	};

	for (auto& r : A.rules) {
		if (!r.ch.empty()) continue;
		TreeP t = std::make_shared<Tree>(Tree{r.sym, {}});
		add(r.par, post(r.sym, {}), t);
		if (refuted) { finish(); return res; }
	}

	// rules of A indexed by child state
	std::map<int, std::vector<const Rule*>> aByChild;
	for (auto& r : A.rules) {
		std::set<int> cs(r.ch.begin(), r.ch.end());
		for (int c : cs) aByChild[c].push_back(&r);
	}

	for (size_t i = 0; i < known.size(); ++i) {
		if (known.size() > cap) { res.verdict = Tri::UNKNOWN; finish(); return res; }
		const int q = known[i].q;
		auto itr = aByChild.find(q);
		if (itr == aByChild.end()) continue;
		for (const Rule* r : itr->second) {
			const size_t n = r->ch.size();
			// position j = first position holding pair i; positions < j use indices < i, positions > j indices <= i
			for (size_t j = 0; j < n; ++j) {
				if (r->ch[j] != q) continue;
				std::vector<std::vector<size_t>> choices(n);
				bool feasible = true;
				for (size_t k = 0; k < n && feasible; ++k) {
					if (k == j) { choices[k] = {i}; continue; }
					auto itb = byState.find(r->ch[k]);
					if (itb == byState.end()) { feasible = false; break; }
					for (size_t idx : itb->second) {
						if (k < j ? idx < i : idx <= i) choices[k].push_back(idx);
					}
					if (choices[k].empty()) feasible = false;
				}
				if (!feasible) continue;
				std::vector<size_t> pick(n, 0);
				for (;;) {
					std::vector<const BS*> sets(n);
					std::vector<TreeP> kids(n);
					for (size_t k = 0; k < n; ++k) {
						const Pair& p = known[choices[k][pick[k]]];
						sets[k] = &p.s; kids[k] = p.t;
					}
					BS s = post(r->sym, sets);
					if (!seen.count(std::make_pair(r->par, s))) {
						TreeP t = std::make_shared<Tree>(Tree{r->sym, kids});
						add(r->par, s, t);
						if (refuted) { finish(); return res; }
						if (known.size() > cap) { res.verdict = Tri::UNKNOWN; finish(); return res; }
					}
					size_t k = 0;
					for (; k < n; ++k) {
						if (++pick[k] < choices[k].size()) break;
						pick[k] = 0;
					}
					if (k == n) break;
				}
			}
		}
	}
	res.verdict = Tri::YES;
	finish();
	return res;
}

inline Tri equivalent(const TA& a, const TA& b, size_t cap = 50000)
{
	InclResult r1 = included(a, b, cap);
	if (r1.verdict == Tri::NO) return Tri::NO;
	InclResult r2 = included(b, a, cap);
	if (r2.verdict == Tri::NO) return Tri::NO;
	if (r1.verdict == Tri::YES && r2.verdict == Tri::YES) return Tri::YES;
	return Tri::UNKNOWN;
}

// a tree witnessing L(a) != L(b), for messages
inline std::string diff_witness(const TA& a, const TA& b, size_t cap = 50000)
{
	InclResult r1 = included(a, b, cap);
	if (r1.verdict == Tri::NO) return "tree " + show(r1.witness) + " is accepted by the first but not by the second";
	InclResult r2 = included(b, a, cap);
	if (r2.verdict == Tri::NO) return "tree " + show(r2.witness) + " is accepted by the second but not by the first";
	return "no difference found";
}

// ---------------------------------------------------------------- tree enumeration (self-check, complement)
// all trees over the given symbols up to the given depth, at most limit trees
inline std::vector<TreeP> enumerate_trees(const std::set<int>& syms, int maxDepth, size_t limit)
{
	std::vector<TreeP> all;
	std::vector<TreeP> prevAll;      // trees of depth < d
	for (int d = 1; d <= maxDepth; ++d) {
		std::vector<TreeP> cur;
		for (int s : syms) {
			const int n = arity(s);
			if (n == 0) { if (d == 1) cur.push_back(std::make_shared<Tree>(Tree{s, {}})); continue; }
			if (d == 1) continue;
			// children from prevAll, at least one of depth d-1
			std::vector<size_t> pick(static_cast<size_t>(n), 0);
			if (prevAll.empty()) continue;
			for (;;) {
				bool hasDeep = false;
				std::vector<TreeP> kids;
				for (int k = 0; k < n; ++k) {
					kids.push_back(prevAll[pick[static_cast<size_t>(k)]]);
					if (depth(kids.back()) == d - 1) hasDeep = true;
				}
				if (hasDeep) {
					cur.push_back(std::make_shared<Tree>(Tree{s, kids}));
					if (all.size() + cur.size() >= limit) { all.insert(all.end(), cur.begin(), cur.end()); return all; }
				}
				int k = 0;
				for (; k < n; ++k) {
					if (++pick[static_cast<size_t>(k)] < prevAll.size()) break;
					pick[static_cast<size_t>(k)] = 0;
				}
				if (k == n) break;
			}
		}
		all.insert(all.end(), cur.begin(), cur.end());
		prevAll = all;
		if (all.size() >= limit) break;
	}
	return all;
}

// ---------------------------------------------------------------- simulations (naive greatest fixpoints)
using Rel = std::set<std::pair<int,int>>;

// greatest downward simulation on the given state universe
inline Rel downward_sim(const TA& A, const std::set<int>& universe)
{
	Rel rel;
	for (int q : universe) for (int r : universe) rel.insert({q, r});
	std::map<int, std::vector<const Rule*>> byPar;
	for (auto& r : A.rules) byPar[r.par].push_back(&r);
	bool ch = true;
	while (ch) {
		ch = false;
		for (auto it = rel.begin(); it != rel.end();) {
			const int q = it->first, r = it->second;
			bool ok = true;
			for (const Rule* rq : byPar[q]) {
				bool answered = false;
				for (const Rule* rr : byPar[r]) {
					if (rr->sym != rq->sym || rr->ch.size() != rq->ch.size()) continue;
					bool all = true;
					for (size_t i = 0; i < rq->ch.size(); ++i)
						if (!rel.count({rq->ch[i], rr->ch[i]})) { all = false; break; }
					if (all) { answered = true; break; }
				}
				if (!answered) { ok = false; break; }
			}
			if (!ok) { it = rel.erase(it); ch = true; } else ++it;
		}
	}
	return rel;
}

// greatest upward simulation (w.r.t. identity on siblings), property C04
inline Rel upward_sim(const TA& A, const std::set<int>& universe)
{
	Rel rel;
	for (int q : universe) for (int r : universe)
		if (!A.finals.count(q) || A.finals.count(r)) rel.insert({q, r});
	bool ch = true;
	while (ch) {
		ch = false;
		for (auto it = rel.begin(); it != rel.end();) {
			const int q = it->first, r = it->second;
			bool ok = true;
			for (auto& rq : A.rules) {
				for (size_t i = 0; i < rq.ch.size() && ok; ++i) {
					if (rq.ch[i] != q) continue;
					bool answered = false;
					for (auto& rr : A.rules) {
						if (rr.sym != rq.sym || rr.ch.size() != rq.ch.size() || rr.ch[i] != r) continue;
						bool same = true;
						for (size_t k = 0; k < rq.ch.size(); ++k)
							if (k != i && rq.ch[k] != rr.ch[k]) { same = false; break; }
						if (same && rel.count({rq.par, rr.par})) { answered = true; break; }
					}
					if (!answered) ok = false;
				}
				if (!ok) break;
			}
			if (!ok) { it = rel.erase(it); ch = true; } else ++it;
		}
	}
	return rel;
}

// ---------------------------------------------------------------- determinisation (generator strategy detB)
inline TA determinise(const TA& A, size_t maxStates = 64)
{
	std::map<std::set<int>, int> id;
	std::vector<std::set<int>> macro;
	TA D;
	auto get = [&](const std::set<int>& s) {
		auto it = id.find(s);
		if (it != id.end()) return it->second;
		int n = static_cast<int>(macro.size());
		id[s] = n; macro.push_back(s);
		return n;
	};
	std::set<int> syms = A.symbols();
	bool ch = true;
	// nullary
	for (int s : syms) if (arity(s) == 0) {
		std::set<int> tgt;
		for (auto& r : A.rules) if (r.sym == s) tgt.insert(r.par);
		if (!tgt.empty()) D.add(s, {}, get(tgt));
	}
	while (ch && macro.size() < maxStates) {
		ch = false;
		const size_t cur = macro.size();
		for (int s : syms) {
			const size_t n = static_cast<size_t>(arity(s));
			if (n == 0 || cur == 0) continue;
			std::vector<size_t> pick(n, 0);
			for (;;) {
				std::set<int> tgt;
				for (auto& r : A.rules) {
					if (r.sym != s) continue;
					bool ok = true;
					for (size_t k = 0; k < n; ++k) if (!macro[pick[k]].count(r.ch[k])) { ok = false; break; }
					if (ok) tgt.insert(r.par);
				}
				if (!tgt.empty()) {
					size_t before = macro.size();
					int t = get(tgt);
					std::vector<int> chv;
					for (size_t k = 0; k < n; ++k) chv.push_back(static_cast<int>(pick[k]));
					if (D.rules.insert(Rule{s, chv, t}).second) ch = true;
					if (macro.size() != before) ch = true;
					if (macro.size() >= maxStates) break;
				}
				size_t k = 0;
				for (; k < n; ++k) { if (++pick[k] < cur) break; pick[k] = 0; }
				if (k == n) break;
			}
		}
	}
	for (size_t i = 0; i < macro.size(); ++i)
		for (int q : macro[i]) if (A.finals.count(q)) { D.finals.insert(static_cast<int>(i)); break; }
	return D;
}

// ---------------------------------------------------------------- text
inline std::string state_name(int q) { return "q" + std::to_string(q); }

// Timbuk text; extraSyms are listed on the Ops line in addition to the used ones
inline std::string to_timbuk(const TA& A, const std::string& name = "A",
	const std::set<int>& extraSyms = {}, const std::vector<Rule>* order = nullptr,
	std::function<std::string(int)> sname = state_name)
{
	std::ostringstream os;
	std::set<int> syms = A.symbols();
	syms.insert(extraSyms.begin(), extraSyms.end());
	os << "Ops";
	for (int s : syms) os << " " << symname(s) << ":" << arity(s);
	os << "\nAutomaton " << name << "\nStates";
	for (int q : A.states()) os << " " << sname(q);
	os << "\nFinal States";
	for (int q : A.finals) os << " " << sname(q);
	os << "\nTransitions\n";
	auto emit = [&](const Rule& r) {
		os << symname(r.sym);
		if (!r.ch.empty()) {
			os << "(";
			for (size_t i = 0; i < r.ch.size(); ++i) os << (i ? "," : "") << sname(r.ch[i]);
			os << ")";
		}
		os << " -> " << sname(r.par) << "\n";
	};
	if (order) for (auto& r : *order) emit(r);
	else for (auto& r : A.rules) emit(r);
	return os.str();
}

} // namespace ref
