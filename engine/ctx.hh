// Child-side context handed to every harness' run_case(): observations,
// classification and failures are streamed to the parent over a pipe; the
// current library call site ("phase") lives in shared memory so that the parent
// can attribute a crash or a timeout to it.
#pragma once
#include "raw.hh"

#include <string>
#include <vector>
#include <unistd.h>

namespace eng {

struct Shm {
	volatile int in_lib;      // 1 while a library call is executing
	volatile int lib_calls;   // number of lib_begin() calls so far
	volatile int small_case;  // harness: the input is within the bounds where a verdict must come back at once
	char phase[240];          // call-site marker of the current/last library call
};

struct Options {
	int tier = 0;               // 0 quick, 1 thorough
	bool sanitizer_only = false;// C20 re-use mode: judge only crashes / sanitizer reports
	unsigned lib_timeout = 10;  // seconds per library section
	unsigned oracle_timeout = 60;
};

Options& opt();

class Ctx {
	int fd_;
	Shm* shm_;
	unsigned nfails_ = 0;
	void send(char kind, const std::string& payload);
public:
	Ctx(int fd, Shm* shm) : fd_(fd), shm_(shm) {}

	// human-readable canonical rendering of the decoded case (hashed for the
	// "distinct" count, stored in replay files and evidence samples)
	void describe(const std::string& text) { send('D', text); }
	// class histogram
	void tag(const std::string& t) { send('T', t); }
	// the case satisfies the property's stated non-triviality rule
	void nontrivial(bool b = true) { if (b) send('N', "1"); }
	// numeric counters merged by addition (e.g. verdicts computed)
	void count(const std::string& key, long n = 1) { send('C', key + "=" + std::to_string(n)); }

	// call-site marker + watchdog around library calls
	void lib_begin(const std::string& phase);
	void lib_end();

	// a violated expectation; sig = stable signature (call site + direction)
	void fail(const std::string& sig, const std::string& msg);
	// the input is so small that a library call which does not return is a
	// "no-verdict" violation (after re-runs with a long budget), not just slow
	void small_case(bool b) { shm_->small_case = b ? 1 : 0; }
	// the oracle could not decide (cap hit, ...): never a violation
	void inconclusive(const std::string& why) { send('I', why); }
	// the harness/oracle itself is broken (never a violation; exit code 2)
	void machinery_error(const std::string& what) { send('X', what); }

	bool sanitizer_only() const { return opt().sanitizer_only; }
	int tier() const { return opt().tier; }
	void finish() { send('E', ""); }
};

// RAII helper: LIB(ctx, "Union") { ... }
struct LibSection {
	Ctx& c;
	LibSection(Ctx& ctx, const std::string& phase) : c(ctx) { c.lib_begin(phase); }
	~LibSection() { c.lib_end(); }
};

} // namespace eng

// every harness defines these two
namespace harness {
extern const char* const ID;
void run_case(const eng::Raw& raw, eng::Ctx& ctx);
}
