// Reference model for nondeterministic finite word automata (property C09/C10
// semantics: a word is accepted when it labels a path from a start state to a
// final state; start symbols are ignored; eps is accepted iff a start state is
// final), plus the Raw decoders for NFAs and NFA pairs.
#pragma once
#include "raw.hh"
#include "ref_ta.hh"

#include <tuple>

namespace ref {

inline std::string wsym(int s) { return std::string(1, static_cast<char>('a' + s)); }

struct NFA {
	std::set<int> starts, finals;
	std::set<std::tuple<int,int,int>> edges;   // (from, symbol, to)

	std::set<int> states() const
	{
		std::set<int> s(starts);
		s.insert(finals.begin(), finals.end());
		for (auto& e : edges) { s.insert(std::get<0>(e)); s.insert(std::get<2>(e)); }
		return s;
	}
	std::set<int> symbols() const
	{
		std::set<int> s;
		for (auto& e : edges) s.insert(std::get<1>(e));
		return s;
	}
	std::set<int> step(const std::set<int>& from, int sym) const
	{
		std::set<int> to;
		for (auto& e : edges) if (std::get<1>(e) == sym && from.count(std::get<0>(e))) to.insert(std::get<2>(e));
		return to;
	}
	bool accepts(const std::vector<int>& w) const
	{
		std::set<int> cur(starts);
		for (int s : w) cur = step(cur, s);
		for (int q : cur) if (finals.count(q)) return true;
		return false;
	}
	std::set<int> forward_reachable() const
	{
		std::set<int> r(starts);
		bool ch = true;
		while (ch) { ch = false; for (auto& e : edges) if (r.count(std::get<0>(e)) && r.insert(std::get<2>(e)).second) ch = true; }
		return r;
	}
	std::set<int> backward_reachable() const
	{
		std::set<int> r(finals);
		bool ch = true;
		while (ch) { ch = false; for (auto& e : edges) if (r.count(std::get<2>(e)) && r.insert(std::get<0>(e)).second) ch = true; }
		return r;
	}
	bool empty_lang() const
	{
		auto f = forward_reachable();
		for (int q : finals) if (f.count(q)) return false;
		return true;
	}
	NFA reversed() const
	{
		NFA r;
		r.starts = finals; r.finals = starts;
		for (auto& e : edges) r.edges.insert(std::make_tuple(std::get<2>(e), std::get<1>(e), std::get<0>(e)));
		return r;
	}
	NFA image(const std::map<int,int>& m) const
	{
		auto f = [&m](int q) { auto it = m.find(q); return it == m.end() ? q : it->second; };
		NFA r;
		for (int q : starts) r.starts.insert(f(q));
		for (int q : finals) r.finals.insert(f(q));
		for (auto& e : edges) r.edges.insert(std::make_tuple(f(std::get<0>(e)), std::get<1>(e), f(std::get<2>(e))));
		return r;
	}
	int max_state() const { auto s = states(); return s.empty() ? -1 : *s.rbegin(); }
	NFA shifted(int off) const
	{
		std::map<int,int> m;
		for (int q : states()) m[q] = q + off;
		return image(m);
	}
	bool operator==(const NFA& o) const { return starts == o.starts && finals == o.finals && edges == o.edges; }
	std::string str() const
	{
		std::ostringstream os;
		os << "I={";
		bool first = true;
		for (int q : starts) { os << (first ? "" : ",") << q; first = false; }
		os << "} F={";
		first = true;
		for (int q : finals) { os << (first ? "" : ",") << q; first = false; }
		os << "}";
		for (auto& e : edges) os << " " << std::get<0>(e) << "-" << wsym(std::get<1>(e)) << "->" << std::get<2>(e) << ";";
		return os.str();
	}
};

inline std::string show_word(const std::vector<int>& w)
{
	if (w.empty()) return "<eps>";
	std::string s;
	for (int x : w) s += wsym(x);
	return s;
}

inline NFA nfa_union(const NFA& a, const NFA& b)
{
	NFA u(a);
	NFA bs = b.shifted(a.max_state() + 1);
	u.starts.insert(bs.starts.begin(), bs.starts.end());
	u.finals.insert(bs.finals.begin(), bs.finals.end());
	u.edges.insert(bs.edges.begin(), bs.edges.end());
	return u;
}

inline NFA nfa_product(const NFA& a, const NFA& b)
{
	// product states are numbered densely in order of first use (operand numbers may be large / sparse)
	std::map<std::pair<int,int>,int> ids;
	auto id = [&ids](int p, int q) {
		auto k = std::make_pair(p, q);
		auto it = ids.find(k);
		if (it != ids.end()) return it->second;
		int n = static_cast<int>(ids.size());
		ids[k] = n;
		return n;
	};
	NFA r;
	for (int p : a.starts) for (int q : b.starts) r.starts.insert(id(p, q));
	for (int p : a.finals) for (int q : b.finals) r.finals.insert(id(p, q));
	for (auto& ea : a.edges) for (auto& eb : b.edges) {
		if (std::get<1>(ea) != std::get<1>(eb)) continue;
		r.edges.insert(std::make_tuple(id(std::get<0>(ea), std::get<0>(eb)), std::get<1>(ea), id(std::get<2>(ea), std::get<2>(eb))));
	}
	return r;
}

// same language, only the part that matters (keeps models of long chains small)
inline NFA nfa_trimmed(const NFA& a)
{
	std::set<int> f = a.forward_reachable(), b = a.backward_reachable();
	NFA r;
	std::map<int,int> ids;
	auto id = [&ids](int q) { auto it = ids.find(q); if (it != ids.end()) return it->second; int n = static_cast<int>(ids.size()); ids[q] = n; return n; };
	for (int q : a.starts) if (f.count(q) && b.count(q)) r.starts.insert(id(q));
	for (int q : a.finals) if (f.count(q) && b.count(q)) r.finals.insert(id(q));
	for (auto& e : a.edges)
		if (f.count(std::get<0>(e)) && b.count(std::get<0>(e)) && f.count(std::get<2>(e)) && b.count(std::get<2>(e)))
			r.edges.insert(std::make_tuple(id(std::get<0>(e)), std::get<1>(e), id(std::get<2>(e))));
	return r;
}

struct NfaInclResult {
	Tri verdict = Tri::UNKNOWN;
	std::vector<int> witness;
	size_t pairs = 0;
	size_t max_macro = 0;     // largest B macro-state met
	bool b_nondet = false;    // some reached B macro-state has >= 2 elements
};

// A ⊆ B ?  explores pairs (q, S): some word reaches q in A and exactly S in B
inline NfaInclResult nfa_included(const NFA& A, const NFA& B, size_t cap = 200000)
{
	NfaInclResult res;
	struct P { int q; std::set<int> s; std::vector<int> w; };
	std::vector<P> known;
	std::set<std::pair<int,std::set<int>>> seen;
	auto bad = [&](int q, const std::set<int>& s) {
		if (!A.finals.count(q)) return false;
		for (int x : s) if (B.finals.count(x)) return false;
		return true;
	};
	for (int q : A.starts) {
		if (seen.insert({q, B.starts}).second) {
			if (bad(q, B.starts)) { res.verdict = Tri::NO; return res; }
			known.push_back(P{q, B.starts, {}});
		}
	}
	std::set<int> syms = A.symbols();
	for (size_t i = 0; i < known.size(); ++i) {
		if (known.size() > cap) { res.pairs = known.size(); return res; }
		P cur = known[i];
		res.max_macro = std::max(res.max_macro, cur.s.size());
		if (cur.s.size() >= 2) res.b_nondet = true;
		for (int sym : syms) {
			std::set<int> sb = B.step(cur.s, sym);
			for (auto& e : A.edges) {
				if (std::get<0>(e) != cur.q || std::get<1>(e) != sym) continue;
				const int q2 = std::get<2>(e);
				if (!seen.insert({q2, sb}).second) continue;
				std::vector<int> w = cur.w; w.push_back(sym);
				if (bad(q2, sb)) { res.verdict = Tri::NO; res.witness = w; res.pairs = known.size(); return res; }
				known.push_back(P{q2, sb, w});
			}
		}
	}
	res.verdict = Tri::YES;
	res.pairs = known.size();
	return res;
}

inline Tri nfa_equivalent(const NFA& a, const NFA& b)
{
	auto r1 = nfa_included(a, b);
	if (r1.verdict == Tri::NO) return Tri::NO;
	auto r2 = nfa_included(b, a);
	if (r2.verdict == Tri::NO) return Tri::NO;
	if (r1.verdict == Tri::YES && r2.verdict == Tri::YES) return Tri::YES;
	return Tri::UNKNOWN;
}

inline std::string nfa_diff(const NFA& a, const NFA& b)
{
	auto r1 = nfa_included(a, b);
	if (r1.verdict == Tri::NO) return "word " + show_word(r1.witness) + " is accepted by the first but not by the second";
	auto r2 = nfa_included(b, a);
	if (r2.verdict == Tri::NO) return "word " + show_word(r2.witness) + " is accepted by the second but not by the first";
	return "no difference found";
}

// ------------------------------------------------------------------ decoders
// which: records with (r[0]/8)%2 == which belong to this automaton (which = -1: all)
// header (raw[0]): [1] nA [2] nB [3] symbols [5] start rule
inline NFA nfa_from_raw(const eng::Raw& raw, int maxStates, int maxSyms, int which, int* nOut = nullptr)
{
	NFA a;
	eng::Rec h = raw.empty() ? eng::Rec{} : raw[0];
	const uint32_t n = 1 + h[which == 1 ? 2 : 1] % static_cast<uint32_t>(maxStates);
	const uint32_t ns = 1 + h[3] % static_cast<uint32_t>(maxSyms);
	if (nOut) *nOut = static_cast<int>(n);
	if ((h[5] >> (which == 1 ? 2 : 0)) % 4 != 3) a.starts.insert(0);
	for (size_t i = 1; i < raw.size(); ++i) {
		const eng::Rec& r = raw[i];
		if (which >= 0 && static_cast<int>((r[0] / 8) % 2) != which) continue;
		const uint32_t kind = r[0] % 8;
		const int q = static_cast<int>(r[2] % n);
		if (kind <= 4) a.edges.insert(std::make_tuple(q, static_cast<int>(r[1] % ns), static_cast<int>(r[3] % n)));
		else if (kind == 5) a.starts.insert(q);
		else a.finals.insert(q);
	}
	return a;
}

} // namespace ref
