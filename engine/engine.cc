// Parent side of every rapidcheck harness: generation, fork sandbox,
// classification, shrinking bookkeeping, replay, per-worker evidence.
// Compiled once per /verif revision; does not include any libvata header.
#include "ctx.hh"

#include <rapidcheck.h>

#include <algorithm>
#include <chrono>
#include <csignal>
#include <cstdio>
#include <cstdlib>
#include <cstring>
#include <fcntl.h>
#include <fstream>
#include <iostream>
#include <map>
#include <set>
#include <sys/mman.h>
#include <sys/stat.h>
#include <sys/wait.h>
#include <sys/time.h>
#include <unistd.h>

namespace eng {

Options& opt() { static Options o; return o; }

static std::string escape(const std::string& s)
{
	std::string r;
	for (char c : s) {
		if (c == '\\') r += "\\\\";
		else if (c == '\n') r += "\\n";
		else r += c;
	}
	return r;
}

static std::string unescape(const std::string& s)
{
	std::string r;
	for (size_t i = 0; i < s.size(); ++i) {
		if (s[i] == '\\' && i + 1 < s.size()) {
			++i;
			r += (s[i] == 'n') ? '\n' : s[i];
		} else r += s[i];
	}
	return r;
}

void Ctx::send(char kind, const std::string& payload)
{
	std::string line;
	line += kind;
	line += '\t';
	line += escape(payload);
	line += '\n';
	const char* p = line.data();
	size_t left = line.size();
	while (left) {
		ssize_t w = ::write(fd_, p, left);
		if (w <= 0) { if (errno == EINTR) continue; _exit(99); }
		p += w; left -= static_cast<size_t>(w);
	}
}

// Watchdog. The budget is CPU time of the child (ITIMER_PROF -> SIGPROF), so that a verdict about "does not return"
// never depends on how busy the machine is; a wall-clock alarm far behind it (SIGALRM) only catches a call that
// blocks without using the CPU, and is never more than inconclusive.
static void arm(unsigned cpuSeconds)
{
	struct itimerval it;
	std::memset(&it, 0, sizeof it);
	it.it_value.tv_sec = cpuSeconds;
	setitimer(ITIMER_PROF, &it, nullptr);
	alarm(cpuSeconds * 10 + 60);
}

void Ctx::lib_begin(const std::string& phase)
{
	std::strncpy(shm_->phase, phase.c_str(), sizeof(shm_->phase) - 1);
	shm_->phase[sizeof(shm_->phase) - 1] = 0;
	shm_->lib_calls = shm_->lib_calls + 1;
	shm_->in_lib = 1;
	arm(opt().lib_timeout);
}

void Ctx::lib_end()
{
	shm_->in_lib = 0;
	arm(opt().oracle_timeout);
}

void Ctx::fail(const std::string& sig, const std::string& msg)
{
	if (opt().sanitizer_only) return;
	if (++nfails_ > 12) return;
	send('F', sig + "\t" + msg);
}

} // namespace eng

using namespace eng;

namespace {

struct Failure { std::string sig, msg; };

struct CaseResult {
	enum St { OK, FAIL, INCONCLUSIVE, ERROR } st = OK;
	std::vector<Failure> fails;
	std::vector<std::string> incon;
	bool nontrivial = false;
	bool timeout = false;
	std::string text;
	std::vector<std::string> tags;
	std::vector<std::pair<std::string,long>> counts;
	std::string sanlog;
};

Shm* g_shm = nullptr;
int g_errfd = -1;
std::string g_errpath;

std::string read_errfile()
{
	std::string s;
	if (g_errfd < 0) return s;
	lseek(g_errfd, 0, SEEK_SET);
	char buf[4096];
	ssize_t n;
	while ((n = read(g_errfd, buf, sizeof buf)) > 0) {
		s.append(buf, static_cast<size_t>(n));
		if (s.size() > 32768) break;
	}
	return s;
}

// one forked execution of the case
CaseResult evaluate_once(const Raw& raw, unsigned libTimeout)
{
	CaseResult res;
	int fds[2];
	if (pipe(fds) != 0) { res.st = CaseResult::ERROR; res.incon.push_back("pipe failed"); return res; }
	if (g_errfd >= 0) { if (ftruncate(g_errfd, 0) != 0) {} lseek(g_errfd, 0, SEEK_SET); }
	std::memset(g_shm, 0, sizeof(Shm));
	fflush(stdout); fflush(stderr);
	pid_t pid = fork();
	if (pid < 0) { close(fds[0]); close(fds[1]); res.st = CaseResult::ERROR; res.incon.push_back("fork failed"); return res; }
	if (pid == 0) {
		close(fds[0]);
		if (g_errfd >= 0) dup2(g_errfd, 2);
		signal(SIGALRM, SIG_DFL);
		signal(SIGPROF, SIG_DFL);
		opt().lib_timeout = libTimeout;
		arm(opt().oracle_timeout);
		Ctx ctx(fds[1], g_shm);
		try {
			harness::run_case(raw, ctx);
		}
		catch (const std::exception& e) {
			g_shm->in_lib = 0;
			ctx.fail(std::string(g_shm->phase) + ":exception", e.what());
		}
		catch (...) {
			g_shm->in_lib = 0;
			ctx.fail(std::string(g_shm->phase) + ":exception", "non-standard exception");
		}
		ctx.finish();
		_exit(0);
	}
	close(fds[1]);
	std::string data;
	char buf[65536];
	for (;;) {
		ssize_t n = read(fds[0], buf, sizeof buf);
		if (n > 0) data.append(buf, static_cast<size_t>(n));
		else if (n == 0) break;
		else if (errno != EINTR) break;
	}
	close(fds[0]);
	int status = 0;
	while (waitpid(pid, &status, 0) < 0 && errno == EINTR) {}

	bool finished = false;
	bool machinery = false;
	size_t pos = 0;
	while (pos < data.size()) {
		size_t nl = data.find('\n', pos);
		if (nl == std::string::npos) break;   // truncated last line: ignore
		std::string line = data.substr(pos, nl - pos);
		pos = nl + 1;
		if (line.size() < 2) continue;
		char kind = line[0];
		std::string payload = unescape(line.substr(2));
		switch (kind) {
			case 'D': res.text = payload; break;
			case 'T': res.tags.push_back(payload); break;
			case 'N': res.nontrivial = true; break;
			case 'C': {
				size_t eq = payload.rfind('=');
				if (eq != std::string::npos)
					res.counts.emplace_back(payload.substr(0, eq), atol(payload.c_str() + eq + 1));
				break;
			}
			case 'F': {
				size_t tab = payload.find('\t');
				Failure f;
				f.sig = payload.substr(0, tab);
				if (tab != std::string::npos) f.msg = payload.substr(tab + 1);
				res.fails.push_back(f);
				break;
			}
			case 'I': res.incon.push_back(payload); break;
			case 'X': res.incon.push_back("machinery: " + payload); machinery = true; break;
			case 'E': finished = true; break;
			default: break;
		}
	}

	const std::string phase(g_shm->phase);
	const bool inLib = g_shm->in_lib != 0;
	if (!finished) {
		if (WIFSIGNALED(status) && WTERMSIG(status) == SIGPROF) {
			if (inLib) { res.timeout = true; res.incon.push_back("timeout:" + phase); }
			else { res.incon.push_back("oracle-timeout after " + phase); }
		}
		else if (WIFSIGNALED(status) && WTERMSIG(status) == SIGALRM) {
			res.incon.push_back((inLib ? "wall-clock-backstop:" : "wall-clock-backstop after ") + phase);
		}
		else if (WIFSIGNALED(status) && WTERMSIG(status) == SIGKILL) {
			res.incon.push_back("killed:" + phase);
		}
		else {
			res.sanlog = read_errfile();
			Failure f;
			std::string where = inLib ? phase : ("after:" + phase);
			f.sig = where + ":crash";
			std::string kind;
			// summarise the sanitizer report
			size_t p;
			if ((p = res.sanlog.find("SUMMARY: ")) != std::string::npos)
				kind = res.sanlog.substr(p, res.sanlog.find('\n', p) - p);
			else if ((p = res.sanlog.find("runtime error: ")) != std::string::npos)
				kind = res.sanlog.substr(p, res.sanlog.find('\n', p) - p);
			else if ((p = res.sanlog.find("ERROR: ")) != std::string::npos)
				kind = res.sanlog.substr(p, res.sanlog.find('\n', p) - p);
			f.msg = std::string("child ") +
				(WIFSIGNALED(status) ? ("killed by signal " + std::to_string(WTERMSIG(status)))
				                     : ("exited with status " + std::to_string(WEXITSTATUS(status)))) +
				" in [" + where + "] " + kind;
			res.fails.push_back(f);
		}
	}
	if (machinery) { res.st = CaseResult::ERROR; res.fails.clear(); }
	else if (!res.fails.empty()) res.st = CaseResult::FAIL;
	else if (!res.incon.empty()) res.st = CaseResult::INCONCLUSIVE;
	return res;
}

// §2.2 of DESIGN.md: a timeout is inconclusive, except that a case that times
// out in three further runs with a 60 s budget is a "no-verdict" failure
CaseResult evaluate(const Raw& raw, bool escalate)
{
	CaseResult r = evaluate_once(raw, opt().lib_timeout);
	if (!r.timeout) return r;
	const std::string phase(g_shm->phase);
	if (!g_shm->small_case || !escalate) return r;      // merely slow: inconclusive
	for (int i = 0; i < 2; ++i) {
		CaseResult r2 = evaluate_once(raw, 45);
		if (!r2.timeout) { r2.tags.push_back("slow-first-run"); return r2; }
	}
	Failure f;
	f.sig = phase + ":no-verdict";
	f.msg = "library call [" + phase + "] did not return within 10 s and 2 x 45 s of CPU time on a tiny input";
	r.fails.push_back(f);
	r.st = CaseResult::FAIL;
	return r;
}

std::string json_str(const std::string& s)
{
	std::string r = "\"";
	for (unsigned char c : s) {
		switch (c) {
			case '"': r += "\\\""; break;
			case '\\': r += "\\\\"; break;
			case '\n': r += "\\n"; break;
			case '\t': r += "\\t"; break;
			case '\r': r += "\\r"; break;
			default:
				if (c < 0x20 || c >= 0x7f) { char b[8]; snprintf(b, sizeof b, "\\u%04x", c); r += b; }
				else r += static_cast<char>(c);
		}
	}
	return r + "\"";
}

struct Stats {
	long evaluations = 0;
	long nontrivial = 0;
	long timeouts = 0;
	std::set<uint64_t> hashes;          // distinct non-trivial cases
	std::map<std::string,long> tags, counters, incon, known_hits;
	std::vector<std::string> samples;
	long next_sample_at = 1;
	struct Rep { std::string sig, msg, replay; };
	std::vector<Rep> failures;
	std::vector<std::string> errors;

	void add(const CaseResult& r)
	{
		++evaluations;
		for (auto& t : r.tags) ++tags[t];
		for (auto& c : r.counts) counters[c.first] += c.second;
		for (auto& i : r.incon) ++incon[i.substr(0, 80)];
		if (r.timeout) ++timeouts;
		if (r.nontrivial) {
			++nontrivial;
			bool fresh = hashes.insert(fnv1a(r.text)).second;
			if (fresh && static_cast<long>(hashes.size()) >= next_sample_at && samples.size() < 6) {
				samples.push_back(r.text);
				next_sample_at *= 6;
			}
		}
	}
};

std::string g_outdir, g_replaydir, g_dumpdir;
long g_dumped = 0;

// binary form understood by fuzz/fuzz_ops.cc: 8 x uint16 (little endian) per record
void dump_binary(const Raw& raw)
{
	if (g_dumpdir.empty() || g_dumped >= 400 || raw.size() < 2) return;
	std::string path = g_dumpdir + "/w" + std::to_string(::getpid()) + "-" + std::to_string(g_dumped++) + ".bin";
	std::ofstream os(path, std::ios::binary);
	for (const Rec& r : raw) for (uint32_t v : r) { os.put(static_cast<char>(v & 0xff)); os.put(static_cast<char>((v >> 8) & 0xff)); }
}
std::set<std::string> g_known;     // open known-finding signatures: swallowed, counted
int g_worker = 0;

bool sig_matches(const std::string& sig, const std::set<std::string>& pats)
{
	for (auto& p : pats) {
		if (p == sig) return true;
		// trailing '*' = prefix pattern
		if (!p.empty() && p.back() == '*' && sig.compare(0, p.size() - 1, p, 0, p.size() - 1) == 0) return true;
	}
	return false;
}

std::string write_replay(const Raw& raw, const std::string& sig, const std::string& msg,
	const std::string& text, const std::string& sanlog)
{
	mkdir(g_replaydir.c_str(), 0777);
	char name[64];
	snprintf(name, sizeof name, "%016llx", static_cast<unsigned long long>(fnv1a(sig + "\n" + raw_to_text(raw))));
	std::string path = g_replaydir + "/" + harness::ID + "-" + name + ".case";
	std::ofstream os(path);
	os << "# property " << harness::ID << "\n# signature " << sig << "\n";
	if (const char* am = getenv("VERIF_ALLOC")) os << "# allocator " << am << "\n";
	{
		std::istringstream is(msg); std::string l;
		while (std::getline(is, l)) os << "# message " << l << "\n";
	}
	{
		std::istringstream is(text); std::string l;
		while (std::getline(is, l)) os << "# " << l << "\n";
	}
	os << raw_to_text(raw);
	os.close();
	if (!sanlog.empty()) {
		std::ofstream ls(path + ".sanitizer.log");
		ls << sanlog;
	}
	return path;
}

void write_stats(const Stats& st, const std::string& path, double secs, uint64_t seed)
{
	std::ofstream os(path);
	os << "{\n \"property\": " << json_str(harness::ID) << ",\n \"worker\": " << g_worker
	   << ",\n \"seed\": " << seed << ",\n \"wall_s\": " << secs
	   << ",\n \"evaluations\": " << st.evaluations << ",\n \"nontrivial\": " << st.nontrivial
	   << ",\n \"timeouts\": " << st.timeouts;
	auto dump_map = [&os](const char* name, const std::map<std::string,long>& m) {
		os << ",\n " << json_str(name) << ": {";
		bool first = true;
		for (auto& kv : m) { os << (first ? "" : ", ") << json_str(kv.first) << ": " << kv.second; first = false; }
		os << "}";
	};
	dump_map("tags", st.tags);
	dump_map("counters", st.counters);
	dump_map("inconclusive", st.incon);
	dump_map("known_hits", st.known_hits);
	os << ",\n \"samples\": [";
	for (size_t i = 0; i < st.samples.size(); ++i) os << (i ? ", " : "") << json_str(st.samples[i]);
	os << "],\n \"errors\": [";
	for (size_t i = 0; i < st.errors.size(); ++i) os << (i ? ", " : "") << json_str(st.errors[i]);
	os << "],\n \"failures\": [";
	for (size_t i = 0; i < st.failures.size(); ++i) {
		auto& f = st.failures[i];
		os << (i ? ", " : "") << "{\"sig\": " << json_str(f.sig) << ", \"msg\": " << json_str(f.msg)
		   << ", \"replay\": " << json_str(f.replay) << "}";
	}
	os << "],\n \"hashes\": [";
	bool first = true;
	for (uint64_t h : st.hashes) {
		char b[24]; snprintf(b, sizeof b, "\"%016llx\"", static_cast<unsigned long long>(h));
		os << (first ? "" : ",") << b; first = false;
	}
	os << "]\n}\n";
}

double now_s()
{
	using namespace std::chrono;
	return duration<double>(steady_clock::now().time_since_epoch()).count();
}

std::string slurp(const std::string& path)
{
	std::ifstream is(path);
	std::stringstream ss; ss << is.rdbuf();
	return ss.str();
}

// returns the first failure not covered by a known / already reported signature
const Failure* first_new_failure(const CaseResult& r, const std::set<std::string>& reported, Stats* st)
{
	const Failure* found = nullptr;
	for (auto& f : r.fails) {
		if (sig_matches(f.sig, g_known)) { if (st) ++st->known_hits[f.sig]; continue; }
		if (reported.count(f.sig)) continue;
		if (!found) found = &f;
	}
	return found;
}

} // namespace

int main(int argc, char** argv)
{
	std::string mode = "run", out, replayFile, corpusDir, expectSig;
	uint64_t seed = 1;
	int cases = 100, size = 30, rounds = 3, minSize = 8;
	for (int i = 1; i < argc; ++i) {
		std::string a = argv[i];
		auto val = [&]() -> std::string { return (i + 1 < argc) ? argv[++i] : ""; };
		if (a == "--mode") mode = val();
		else if (a == "--out") out = val();
		else if (a == "--replay") { mode = "replay"; replayFile = val(); }
		else if (a == "--corpus") { mode = "corpus"; corpusDir = val(); }
		else if (a == "--seed") seed = strtoull(val().c_str(), nullptr, 10);
		else if (a == "--cases") cases = atoi(val().c_str());
		else if (a == "--size") size = atoi(val().c_str());
		else if (a == "--rounds") rounds = atoi(val().c_str());
		else if (a == "--min-records") minSize = atoi(val().c_str());
		else if (a == "--worker") g_worker = atoi(val().c_str());
		else if (a == "--tier") opt().tier = (val() == "thorough") ? 1 : 0;
		else if (a == "--sanitizer-only") opt().sanitizer_only = true;
		else if (a == "--lib-timeout") opt().lib_timeout = static_cast<unsigned>(atoi(val().c_str()));
		else if (a == "--replay-dir") g_replaydir = val();
		else if (a == "--tmp-dir") g_outdir = val();
		else if (a == "--expect-sig") expectSig = val();
		else if (a == "--dump-dir") g_dumpdir = val();
		else if (a == "--known") {
			std::string k = val();
			size_t p = 0;
			while (p <= k.size()) {
				size_t c = k.find(',', p);
				if (c == std::string::npos) c = k.size();
				if (c > p) g_known.insert(k.substr(p, c - p));
				p = c + 1;
			}
		}
		else { std::cerr << "unknown argument " << a << "\n"; return 2; }
	}
	if (g_outdir.empty()) g_outdir = ".";
	if (g_replaydir.empty()) g_replaydir = g_outdir;

	g_shm = static_cast<Shm*>(mmap(nullptr, sizeof(Shm), PROT_READ | PROT_WRITE,
		MAP_SHARED | MAP_ANONYMOUS, -1, 0));
	if (g_shm == MAP_FAILED) { perror("mmap"); return 2; }
	g_errpath = g_outdir + "/stderr-" + harness::ID + "-" + std::to_string(getpid()) + ".txt";
	g_errfd = open(g_errpath.c_str(), O_RDWR | O_CREAT | O_TRUNC, 0666);

	const double t0 = now_s();
	Stats st;
	int rc_exit = 0;

	if (mode == "replay") {
		Raw raw = raw_from_text(slurp(replayFile));
		CaseResult r = evaluate(raw, true);
		std::cout << r.text << "\n";
		bool bad = false;
		for (auto& f : r.fails) {
			bool known = sig_matches(f.sig, g_known);
			std::cout << (known ? "KNOWN " : "FAIL ") << f.sig << " :: " << f.msg << "\n";
			if (!known && (expectSig.empty() || expectSig == f.sig)) bad = true;
		}
		for (auto& i : r.incon) std::cout << "INCONCLUSIVE " << i << "\n";
		if (!r.sanlog.empty()) std::cout << "--- sanitizer log ---\n" << r.sanlog.substr(0, 6000) << "\n";
		if (r.st == CaseResult::ERROR) { std::cout << "RESULT error\n"; rc_exit = 2; }
		else if (bad) { std::cout << "RESULT fail\n"; rc_exit = 1; }
		else std::cout << "RESULT pass\n";
	}
	else if (mode == "corpus") {
		// replay every *.case of a directory (sorted); failures are reported like generated ones
		std::vector<std::string> files;
		{
			std::string cmd = "ls " + corpusDir + "/*.case 2>/dev/null";
			FILE* p = popen(cmd.c_str(), "r");
			char line[4096];
			while (p && fgets(line, sizeof line, p)) {
				std::string s(line);
				while (!s.empty() && (s.back() == '\n' || s.back() == '\r')) s.pop_back();
				if (!s.empty()) files.push_back(s);
			}
			if (p) pclose(p);
		}
		std::sort(files.begin(), files.end());
		std::set<std::string> reported;
		for (auto& f : files) {
			Raw raw = raw_from_text(slurp(f));
			CaseResult r = evaluate(raw, true);
			st.add(r);
			++st.counters["corpus_cases"];
			if (r.st == CaseResult::ERROR) { st.errors.push_back(f + ": " + (r.incon.empty() ? "" : r.incon[0])); continue; }
			const Failure* nf = first_new_failure(r, reported, &st);
			if (nf) {
				reported.insert(nf->sig);
				st.failures.push_back({nf->sig, nf->msg, f});
			}
		}
		if (!out.empty()) write_stats(st, out, now_s() - t0, seed);
		rc_exit = st.failures.empty() ? 0 : 1;
	}
	else {
		std::set<std::string> reported;
		int remaining = cases;
		for (int round = 0; round < rounds && remaining > 0; ++round) {
			Raw lastFailing; CaseResult lastFailRes; std::string targetSig;
			bool failing = false;
			double shrinkDeadline = 0;
			long shrinkEvals = 0;
			long doneThisRound = 0;

			// values are uniform 16-bit (inRange scales with size: pin it), the number
			// of records is minRecords + U[0, size]; only the variable tail shrinks by removal
			auto elem = rc::gen::resize(100, rc::gen::inRange<uint32_t>(0u, 65536u));
			auto rec = rc::gen::container<Rec>(elem);
			auto fixedPart = rc::gen::container<Raw>(static_cast<std::size_t>(minSize), rec);
			auto tailPart = rc::gen::container<Raw>(rec);
			auto gen = rc::gen::apply([](Raw a, const Raw& b) { a.insert(a.end(), b.begin(), b.end()); return a; },
				fixedPart, tailPart);

			auto property = [&]() {
				Raw raw = *gen;
				if (failing) {
					// shrinking: bounded effort, no timeout escalation, same signature only
					if (now_s() > shrinkDeadline || ++shrinkEvals > 400) return;
					CaseResult r = evaluate_once(raw, opt().lib_timeout);
					if (r.timeout && g_shm->small_case && targetSig.size() > 11 &&
						targetSig.compare(targetSig.size() - 11, 11, ":no-verdict") == 0 &&
						targetSig.compare(0, targetSig.size() - 11, g_shm->phase) == 0) {
						Failure f; f.sig = targetSig; f.msg = "timeout while shrinking";
						r.fails.push_back(f);
					}
					for (auto& f : r.fails) {
						if (f.sig == targetSig) {
							lastFailing = raw; lastFailRes = r;
							// keep message of the matching failure first
							std::swap(lastFailRes.fails.front(), *std::find_if(lastFailRes.fails.begin(),
								lastFailRes.fails.end(), [&](const Failure& x){ return x.sig == targetSig; }));
							RC_FAIL("same failure");
						}
					}
					return;
				}
				CaseResult r = evaluate(raw, true);
				st.add(r);
				++doneThisRound;
				if (r.nontrivial) dump_binary(raw);
				if (r.timeout && st.timeouts <= 2) {
					// keep a sample of what was inconclusive
					write_replay(raw, "timeout-sample:" + (r.incon.empty() ? std::string() : r.incon[0]), "inconclusive (slow)", r.text, "");
				}
				if (r.st == CaseResult::ERROR) {
					if (st.errors.size() < 5) st.errors.push_back(r.incon.empty() ? "error" : r.incon[0]);
					return;
				}
				const Failure* nf = first_new_failure(r, reported, &st);
				if (nf) {
					failing = true;
					targetSig = nf->sig;
					lastFailing = raw; lastFailRes = r;
					std::swap(lastFailRes.fails.front(), *std::find_if(lastFailRes.fails.begin(),
						lastFailRes.fails.end(), [&](const Failure& x){ return x.sig == targetSig; }));
					shrinkDeadline = now_s() + 60;
					RC_FAIL("violation");
				}
			};

			rc::detail::TestParams params;
			params.seed = seed * 7919u + static_cast<uint64_t>(round) * 104729u + 1u;
			params.maxSuccess = remaining;
			params.maxSize = size;
			params.maxDiscardRatio = 10;
			rc::detail::TestMetadata md;
			md.id = harness::ID; md.description = harness::ID;
			auto result = rc::detail::checkTestable(property, md, params);
			(void)result;
			remaining -= static_cast<int>(doneThisRound);
			if (failing) {
				const Failure& f = lastFailRes.fails.front();
				std::string path = write_replay(lastFailing, f.sig, f.msg, lastFailRes.text, lastFailRes.sanlog);
				st.failures.push_back({f.sig, f.msg, path});
				reported.insert(f.sig);
				// behind a call that does not return every further case costs minutes: stop exploring in this worker
				if (f.sig.size() > 11 && f.sig.compare(f.sig.size() - 11, 11, ":no-verdict") == 0) break;
			}
			else break;
		}
		if (!out.empty()) write_stats(st, out, now_s() - t0, seed);
		rc_exit = st.failures.empty() ? 0 : 1;
	}
	if (g_errfd >= 0) { close(g_errfd); unlink(g_errpath.c_str()); }
	return rc_exit;
}
