// Adapters for the two BDD encodings: loaded through the Timbuk loader (the
// property speaks about loaded Timbuk automata), read through DumpToString and
// the harness' own dump reader.
#pragma once
#include "dump_reader.hh"
#include "gen_ta.hh"

#include <vata/bdd_bu_tree_aut.hh>
#include <vata/bdd_td_tree_aut.hh>
#include <vata/parsing/timbuk_parser.hh>
#include <vata/serialization/timbuk_serializer.hh>

namespace libbdd {

using VATA::BDDBottomUpTreeAut;
using VATA::BDDTopDownTreeAut;
using StateType = VATA::AutBase::StateType;

template <class Aut>
inline Aut load(const ref::TA& A, const std::vector<ref::Rule>& order, const gen::Numbering& num)
{
	Aut aut;
	VATA::Parsing::TimbukParser parser;
	VATA::AutBase::StateDict dict;
	VATA::AutBase::StringToStateTranslWeak transl(dict,
		[&num](const std::string& name) -> StateType { return num(atoi(name.c_str() + 1)); });
	aut.LoadFromString(parser, ref::to_timbuk(A, "A", {}, &order), transl);
	return aut;
}

template <class Aut>
inline Aut load(const ref::TA& A, const gen::Numbering& num)
{
	std::vector<ref::Rule> order(A.rules.begin(), A.rules.end());
	return load<Aut>(A, order, num);
}

// numeric state names; numbers that do not fit an int are folded to fresh ids >= 10^8
template <class Aut>
inline ref::TA read(const Aut& aut)
{
	VATA::Serialization::TimbukSerializer ser;
	return dump::to_ta_numeric(aut.DumpToString(ser));
}

} // namespace libbdd
