// Decoders Raw -> tree automata / pairs of tree automata (DESIGN §3.4).
// Pure functions of the raw data: no RNG, no clock.
#pragma once
#include "raw.hh"
#include "ref_ta.hh"

namespace gen {

using eng::Raw;
using eng::Rec;
using ref::Rule;
using ref::TA;

inline uint64_t mix(uint64_t x)
{
	x += 0x9e3779b97f4a7c15ull;
	x = (x ^ (x >> 30)) * 0xbf58476d1ce4e5b9ull;
	x = (x ^ (x >> 27)) * 0x94d049bb133111ebull;
	return x ^ (x >> 31);
}
inline uint64_t mix(uint64_t seed, uint64_t i) { return mix(seed * 0x100000001b3ull + i + 1); }

// symbol choice list: index 0 is a leaf so that shrinking ends in leaf rules;
// 'd' is last so that the first 8 never contain it (used by strategy leafmiss)
inline const std::vector<int>& sym_order()
{
	//                              a  g  f  b  h  k  c  t  d
	static const std::vector<int> o{0, 4, 6, 1, 5, 7, 2, 8, 3};
	return o;
}

struct Limits {
	int maxStates = 5;
	bool arity3 = false;
	// pairs only: when > 0, one case in 'fanoutEvery' uses strategy FANOUT (chosen by bits of header[0] that the
	// weighted pick does not look at, so that saved cases keep their meaning)
	int fanoutEvery = 0;
	// when set, a quarter of the alphabets re-use the NAME of the first leaf symbol for one or two non-nullary
	// symbols ("a:0 a:1 a:2"): symbols are (name, rank) pairs in every encoding; the BDD encodings number them by
	// name and tell them apart by the tuple (bottom-up) / the arity prefix (top-down) only
	bool overload = false;
};

// alphabet = first ns entries of sym_order(), without t:3 unless allowed
inline std::vector<int> alphabet(uint32_t sel, const Limits& lim)
{
	size_t ns = 2 + sel % 7;          // 2..8
	std::vector<int> s;
	for (size_t i = 0; i < ns; ++i) {
		int id = sym_order()[i];
		if (ref::arity(id) == 3 && !lim.arity3) continue;
		s.push_back(id);
	}
	// the ternary symbol is the 8th of the choice list and would be rare: a third of the alphabets that may contain it
	// get it in place of their first binary symbol
	if (lim.arity3 && (sel / 196) % 3 == 0 && std::find(s.begin(), s.end(), 8) == s.end())
		for (auto& id : s) if (ref::arity(id) == 2) { id = 8 /* t:3 */; break; }
	if (lim.overload && (sel / 7) % 4 == 0) {
		int done = 0;
		const int want = 1 + static_cast<int>((sel / 28) % 2);
		for (size_t i = 1; i < s.size() && done < want; ++i) {
			if (ref::arity(s[i]) == 0) continue;
			s[i] = ref::symtab().id(ref::symname(s[0]), ref::arity(s[i]));
			++done;
		}
	}
	return s;
}

// one body record -> one rule or one final state of an n-state automaton
struct Item {
	bool isFinal;
	int state;      // final state
	Rule rule;
	uint32_t aux;   // spare randomness attached to the item
	uint32_t aux2;
};

// Stateful item decoder.  Bias (3 of 4 records): children and final states are
// drawn from the states that already own a rule, and a non-nullary symbol is
// replaced by a leaf while no state owns a rule yet, so that most generated
// automata have productive states; 1 of 4 records is unbiased (dead rules,
// final states without rules, unproductive children stay in the domain).
struct Builder {
	int n;
	const std::vector<int>& syms;
	std::vector<int> owners;     // states that are the parent of some earlier rule
	Builder(int n_, const std::vector<int>& s) : n(n_), syms(s) {}

	Item decode(const Rec& r)
	{
		Item it;
		it.aux = r[6]; it.aux2 = r[7];
		const uint32_t kind = r[0] % 8;
		const bool biased = ((r[0] / 32) % 4) != 3;
		it.isFinal = (kind >= 6);
		auto pick = [&](uint32_t v) {
			if (biased && !owners.empty()) return owners[v % owners.size()];
			return static_cast<int>(v % static_cast<uint32_t>(n));
		};
		if (it.isFinal) {
			it.state = pick(r[2]);
			it.rule.sym = syms[0]; it.rule.par = it.state;
			return it;
		}
		it.state = static_cast<int>(r[2] % static_cast<uint32_t>(n));
		it.rule.sym = syms[r[1] % syms.size()];
		if (biased && owners.empty() && ref::arity(it.rule.sym) > 0) {
			// first rule: take a leaf symbol instead (syms[0] is always a leaf)
			it.rule.sym = syms[0];
		}
		it.rule.par = it.state;
		const int ar = ref::arity(it.rule.sym);
		for (int i = 0; i < ar; ++i) it.rule.ch.push_back(pick(r[3 + static_cast<size_t>(i)]));
		// a third of the biased non-unary rules repeat their first child at every position (f(q,q)): the shape in
		// which one state must be combined with itself under two different macro-states
		if (biased && ar >= 2 && (r[0] / 128) % 3 == 0)
			for (int i = 1; i < ar; ++i) it.rule.ch[static_cast<size_t>(i)] = it.rule.ch[0];
		if (std::find(owners.begin(), owners.end(), it.state) == owners.end()) owners.push_back(it.state);
		return it;
	}
};

inline Item decode_item(const Rec& r, int n, const std::vector<int>& syms)
{
	Builder b(n, syms);
	return b.decode(r);
}

// a numbering of the model states 0..n-1 (and beyond) by library state numbers
struct Numbering {
	int mode = 0;                 // 0 identity, 1 reversed, 2 permuted, 3 sparse, 4 offset
	uint32_t seed = 0;
	std::vector<size_t> tab;      // tab[q] for q < tab.size()
	size_t operator()(int q) const
	{
		if (q >= 0 && static_cast<size_t>(q) < tab.size()) return tab[static_cast<size_t>(q)];
		return static_cast<size_t>(q) + 100000;   // never used by well-formed cases
	}
	std::string str() const
	{
		std::string s;
		for (size_t i = 0; i < tab.size(); ++i) s += (i ? "," : "") + std::to_string(tab[i]);
		return s;
	}
	bool identity() const
	{
		for (size_t i = 0; i < tab.size(); ++i) if (tab[i] != i) return false;
		return true;
	}
};

// dense = only permutations of 0..n-1
inline Numbering make_numbering(uint32_t sel, int n, bool denseOnly, size_t base = 0)
{
	Numbering nb;
	nb.seed = sel;
	nb.mode = static_cast<int>(sel % (denseOnly ? 3u : 5u));
	nb.tab.resize(static_cast<size_t>(n));
	for (int i = 0; i < n; ++i) nb.tab[static_cast<size_t>(i)] = static_cast<size_t>(i);
	switch (nb.mode) {
		case 0: break;
		case 1: std::reverse(nb.tab.begin(), nb.tab.end()); break;
		case 2:
			for (int i = n - 1; i > 0; --i) {
				size_t j = static_cast<size_t>(mix(sel, static_cast<uint64_t>(i)) % static_cast<uint64_t>(i + 1));
				std::swap(nb.tab[static_cast<size_t>(i)], nb.tab[j]);
			}
			break;
		case 3: {   // sparse, increasing gaps, not order preserving
			std::set<size_t> used;
			for (int i = 0; i < n; ++i) {
				size_t v = static_cast<size_t>(mix(sel, static_cast<uint64_t>(i) + 77) % 600);
				while (used.count(v)) ++v;
				used.insert(v);
				nb.tab[static_cast<size_t>(i)] = v;
			}
			break;
		}
		case 4: for (auto& v : nb.tab) v += 1 + (sel / 8) % 40; break;
	}
	for (auto& v : nb.tab) v += base;
	return nb;
}

inline std::vector<Rule> shuffled(const std::set<Rule>& rules, uint32_t seed)
{
	std::vector<Rule> v(rules.begin(), rules.end());
	if (seed % 3 == 0) return v;
	if (seed % 3 == 1) { std::reverse(v.begin(), v.end()); return v; }
	for (size_t i = v.size(); i > 1; --i) {
		size_t j = static_cast<size_t>(mix(seed, i) % i);
		std::swap(v[i - 1], v[j]);
	}
	return v;
}

// ------------------------------------------------------------------ single automaton
struct TACase {
	TA A;
	int n = 1;                     // nominal number of states (0..n-1); states without rules may be unused
	std::vector<int> syms;         // alphabet offered to the generator
	Numbering num;
	std::vector<Rule> order;       // insertion order
	std::map<Rule, uint32_t> aux;  // per-rule spare randomness
	Rec header{};
};

// header: [0] flavour (harness specific) [1] n [2] alphabet [3] numbering [4] order [5..7] free
inline TACase decode_ta(const Raw& raw, const Limits& lim, bool denseNumbering, size_t firstBody = 1, size_t lastBody = SIZE_MAX)
{
	TACase c;
	c.header = raw.empty() ? Rec{} : raw[0];
	c.n = 1 + static_cast<int>(c.header[1] % static_cast<uint32_t>(lim.maxStates));
	c.syms = alphabet(c.header[2], lim);
	Builder bld(c.n, c.syms);
	for (size_t i = firstBody; i < raw.size() && i < lastBody; ++i) {
		Item it = bld.decode(raw[i]);
		if (it.isFinal) c.A.finals.insert(it.state);
		else { c.A.rules.insert(it.rule); c.aux[it.rule] = it.aux; }
	}
	c.num = make_numbering(c.header[3], c.n, denseNumbering);
	c.order = shuffled(c.A.rules, c.header[4]);
	return c;
}

// LARGE flavour shared by the single-automaton harnesses (the construction C04 introduced): one case in 'every'
// becomes an automaton of 20..150 states - a backbone of unary / binary rules through all states (so that every
// state is productive and reachable from the last one) with the generated rules and final states stretched over
// the state space; in the DENSE half every state also owns the same leaf and the backbone uses one symbol, so that
// states are (nearly) totally ordered by simulation.  Hash containers of the library get rehashed, bit masks leave
// their first word, free lists and relations reach four-digit sizes.  Returns "" for an ordinary case, else a tag.
inline std::string enlarge(TACase& c, bool denseNumbering, uint32_t every = 24)
{
	if (c.header[7] % every != every - 1) return "";
	const int n = 20 + static_cast<int>(c.header[6] % 131);
	const bool dense = (c.header[6] / 256) % 2;
	TA L;
	L.add(0 /* a */, {}, 0);
	for (int i = 1; i < n; ++i) {
		const uint64_t m = mix(c.header[5], static_cast<uint64_t>(i));
		if (dense) { L.add(4 /* g */, {i - 1}, i); L.add(0 /* a */, {}, i); if (m % 23 == 0) L.add(1 /* b */, {}, i); continue; }
		if (m % 3 == 0) L.add(6 /* f */, {i - 1, static_cast<int>((m / 3) % static_cast<uint64_t>(i))}, i);
		else L.add((m % 3 == 1) ? 4 /* g */ : 5 /* h */, {i - 1}, i);
		if (m % 11 == 0) L.add(1 /* b */, {}, i);
	}
	for (auto& r : c.A.rules) {
		Rule x = r;
		x.par = (x.par * 17) % n;
		for (auto& ch : x.ch) ch = (ch * 13) % n;
		L.rules.insert(x);
	}
	L.finals.insert(n - 1);
	for (int f : c.A.finals) L.finals.insert((f * 29) % n);
	c.A = L;
	c.n = n;
	c.aux.clear();
	for (int sy : {0, 1, 4, 5, 6}) if (std::find(c.syms.begin(), c.syms.end(), sy) == c.syms.end()) c.syms.push_back(sy);
	c.num = make_numbering(c.header[3], c.n, denseNumbering);
	c.order = shuffled(c.A.rules, c.header[4]);
	return dense ? "large:20-150-states:dense" : "large:20-150-states";
}

// ------------------------------------------------------------------ pairs
enum Strategy { INDEP = 0, SUPERSET, ABLATE, SPLIT, LEAFMISS, DETB, DEGENERATE, NSTRATEGIES, FANOUT = NSTRATEGIES, COVER };
inline const char* strategy_name(int s)
{
	static const char* n[] = {"indep", "superset", "ablate", "split", "leafmiss", "detB", "degenerate", "fanout", "cover"};
	return n[s];
}

struct PairCase {
	TA A, B;
	int strategy = 0;
	bool swapped = false;
	std::vector<int> syms;
	int nA = 1, nB = 1;            // nominal state counts (numberings cover 0..n-1)
	Numbering numA, numB;
	std::vector<Rule> orderA, orderB;
	Rec header{};
};

inline TA renumber_perm(const TA& a, int n, uint32_t seed)
{
	std::vector<int> p(static_cast<size_t>(n));
	for (int i = 0; i < n; ++i) p[static_cast<size_t>(i)] = i;
	for (int i = n - 1; i > 0; --i) {
		size_t j = static_cast<size_t>(mix(seed, static_cast<uint64_t>(i) + 1000) % static_cast<uint64_t>(i + 1));
		std::swap(p[static_cast<size_t>(i)], p[j]);
	}
	std::map<int,int> m;
	for (int i = 0; i < n; ++i) m[i] = p[static_cast<size_t>(i)];
	return a.image(m);
}

// header: [0] strategy [1] nA [2] nB [3] alphabet [4] numbering A [5] numbering B [6] strategy parameter [7] misc (bit0 swap, order seeds)
// weights: table of NSTRATEGIES relative weights (harness specific)
inline PairCase decode_pair(const Raw& raw, const Limits& lim, const std::vector<int>& weights,
	bool denseNumbering = false)
{
	PairCase c;
	c.header = raw.empty() ? Rec{} : raw[0];
	const Rec& h = c.header;
	int total = 0;
	for (int w : weights) total += w;
	int pick = static_cast<int>(h[0] % static_cast<uint32_t>(total));
	for (int s = 0; s < NSTRATEGIES; ++s) {
		if (pick < weights[static_cast<size_t>(s)]) { c.strategy = s; break; }
		pick -= weights[static_cast<size_t>(s)];
	}
	if (lim.fanoutEvery > 0 && (h[0] / 1024) % static_cast<uint32_t>(lim.fanoutEvery) == 1) c.strategy = FANOUT;
	if (lim.fanoutEvery > 0 && (h[0] / 1024) % static_cast<uint32_t>(lim.fanoutEvery) == 2) c.strategy = COVER;
	c.nA = 1 + static_cast<int>(h[1] % static_cast<uint32_t>(c.strategy >= FANOUT ? std::min(lim.maxStates, 3) : lim.maxStates));
	c.nB = 1 + static_cast<int>(h[2] % static_cast<uint32_t>(lim.maxStates));
	c.syms = alphabet(h[3], lim);
	const uint32_t par = h[6];

	std::vector<Item> itemsA, itemsB;
	const bool single = (c.strategy != INDEP && c.strategy != DEGENERATE);
	Builder bldA(c.nA, c.syms), bldB(c.nB, c.syms);
	for (size_t i = 1; i < raw.size(); ++i) {
		const Rec& r = raw[i];
		// in derived strategies 3 of 4 records build A, the rest is noise for B
		const uint32_t who = (r[0] / 8) % 4;
		const bool forB = single ? (who == 3) : (who >= 2);
		if (forB) itemsB.push_back(bldB.decode(r));
		else itemsA.push_back(bldA.decode(r));
	}
	std::map<Rule, uint32_t> auxA;
	std::map<int, uint32_t> auxFinA;
	for (auto& it : itemsA) {
		if (it.isFinal) { c.A.finals.insert(it.state); auxFinA[it.state] = it.aux; }
		else { c.A.rules.insert(it.rule); auxA[it.rule] = it.aux; }
	}
	TA noise;
	for (auto& it : itemsB) {
		if (it.isFinal) noise.finals.insert(it.state);
		else noise.rules.insert(it.rule);
	}

	switch (c.strategy) {
		case INDEP:
			c.B = noise;
			break;
		case SUPERSET: {
			c.nB = std::max(c.nA, c.nB);
			c.B = renumber_perm(c.A, c.nA, par);
			c.B.rules.insert(noise.rules.begin(), noise.rules.end());
			c.B.finals.insert(noise.finals.begin(), noise.finals.end());
			break;
		}
		case ABLATE: {
			c.nB = std::max(c.nA, c.nB);
			TA base = c.A;
			const size_t nr = base.rules.size(), nf = base.finals.size();
			if (nr + nf > 0) {
				size_t k = (par / 4) % (nr + nf);
				if (k < nr) { auto it = base.rules.begin(); std::advance(it, static_cast<long>(k)); base.rules.erase(it); }
				else { auto it = base.finals.begin(); std::advance(it, static_cast<long>(k - nr)); base.finals.erase(it); }
			}
			c.B = renumber_perm(base, c.nA, par);
			if (par % 4 >= 2) {   // half of the time with noise
				c.B.rules.insert(noise.rules.begin(), noise.rules.end());
				c.B.finals.insert(noise.finals.begin(), noise.finals.end());
			}
			break;
		}
		case SPLIT: {
			// every state q of A becomes 2q and 2q+1; every rule is replaced by a
			// non-empty subset of its copies chosen by the rule's spare bits
			c.nB = 2 * c.nA;
			for (auto& r : c.A.rules) {
				const size_t slots = r.ch.size() + 1;
				const uint32_t ncopies = 1u << slots;
				uint32_t mask = auxA[r] % (1u << ncopies);
				if (mask == 0) mask = 1u | (auxA[r] == 0 ? 0u : (1u << (ncopies - 1)));
				for (uint32_t cp = 0; cp < ncopies; ++cp) {
					if (!((mask >> cp) & 1)) continue;
					Rule n{r.sym, {}, 2 * r.par + static_cast<int>(cp & 1)};
					for (size_t i = 0; i < r.ch.size(); ++i)
						n.ch.push_back(2 * r.ch[i] + static_cast<int>((cp >> (i + 1)) & 1));
					c.B.rules.insert(n);
				}
			}
			for (int f : c.A.finals) {
				uint32_t m = auxFinA[f] % 3;      // 0: both, 1: first, 2: second
				if (m != 2) c.B.finals.insert(2 * f);
				if (m != 1) c.B.finals.insert(2 * f + 1);
			}
			if (par % 4 == 3) {
				for (auto r : noise.rules) c.B.rules.insert(r);
			}
			break;
		}
		case FANOUT: {
			// every state q of A becomes K copies K*q+j; a rule of A is replaced by 2-4 of its copies (parent copy and
			// child copies drawn independently), a leaf rule / final state by a non-empty subset of its copies:
			// B then offers several alternative rules for the same symbol under one macro-state, each covering only
			// a part of what the rule of A produces
			const int K = 3;
			c.nB = K * c.nA;
			for (auto& r : c.A.rules) {
				const uint32_t ax = auxA[r];
				if (r.ch.empty()) {
					uint32_t mask = ax % 8;
					if (mask == 0) mask = 1u << (ax / 8 % 3);
					for (int j = 0; j < K; ++j) if ((mask >> j) & 1) c.B.rules.insert(Rule{r.sym, {}, K * r.par + j});
					continue;
				}
				const uint32_t ncopies = 2 + ax % 3;
				for (uint32_t cp = 0; cp < ncopies; ++cp) {
					uint64_t v = mix(ax, cp + 31);
					Rule n{r.sym, {}, K * r.par + static_cast<int>(v % K)};
					for (size_t i = 0; i < r.ch.size(); ++i) { v /= K; n.ch.push_back(K * r.ch[i] + static_cast<int>(v % K)); }
					c.B.rules.insert(n);
				}
			}
			for (int f : c.A.finals) {
				uint32_t mask = auxFinA[f] % 8;
				if (mask == 0) mask = 7;
				for (int j = 0; j < K; ++j) if ((mask >> j) & 1) c.B.finals.insert(K * f + j);
			}
			if (par % 4 == 3) for (auto r : noise.rules) c.B.rules.insert(r);
			break;
		}
		case COVER: {
			// B = K ALIGNED copies of A (copy j of a rule uses copy j of every state), the leaf rules and final states
			// DISTRIBUTED over the copies, plus a few cross-wired copies of non-leaf rules: a state of A is then covered
			// by the union of its copies only, each copy accepting the trees over "its" leaves - the situation in which
			// inclusion algorithms must combine several macro-states (and may prove things under assumptions that fail later)
			const int K = 2 + static_cast<int>(par % 2);
			c.nB = K * c.nA;
			for (auto& r : c.A.rules) {
				const uint32_t ax = auxA[r];
				if (r.ch.empty()) {
					uint32_t mask = ax % (1u << K);
					if (mask == 0) mask = 1u << (ax / 8 % static_cast<uint32_t>(K));
					for (int j = 0; j < K; ++j) if ((mask >> j) & 1) c.B.rules.insert(Rule{r.sym, {}, K * r.par + j});
					continue;
				}
				for (int j = 0; j < K; ++j) {
					if ((ax >> (4 + j)) % 8 == 7 && (ax % 16) == 0) continue;      // rarely a copy lacks the rule
					Rule n{r.sym, {}, K * r.par + j};
					for (int chd : r.ch) n.ch.push_back(K * chd + j);
					c.B.rules.insert(n);
				}
				if (ax % 3 == 0) {
					uint64_t v = mix(ax, 17);
					Rule n{r.sym, {}, K * r.par + static_cast<int>(v % K)};
					for (size_t i = 0; i < r.ch.size(); ++i) { v /= K; n.ch.push_back(K * r.ch[i] + static_cast<int>(v % K)); }
					c.B.rules.insert(n);
				}
			}
			for (int f : c.A.finals) {
				uint32_t mask = auxFinA[f] % (1u << K);
				if (mask == 0 || auxFinA[f] % 3 == 0) mask = (1u << K) - 1;
				for (int j = 0; j < K; ++j) if ((mask >> j) & 1) c.B.finals.insert(K * f + j);
			}
			break;
		}
		case LEAFMISS: {
			c.nB = std::max(c.nA, c.nB);
			c.B = renumber_perm(c.A, c.nA, par);
			c.B.rules.insert(noise.rules.begin(), noise.rules.end());
			c.B.finals.insert(noise.finals.begin(), noise.finals.end());
			// A additionally accepts/uses the leaf d, which B does not know
			const int d = 3;
			c.A.add(d, {}, static_cast<int>((par / 4) % static_cast<uint32_t>(c.nA)));
			if (par % 4 == 0) c.A.finals.insert(static_cast<int>((par / 4) % static_cast<uint32_t>(c.nA)));
			break;
		}
		case DETB: {
			TA d = ref::determinise(c.A, 9);
			if (d.states().size() > 8) {     // too large to be useful: keep A's own structure instead
				d = renumber_perm(c.A, c.nA, par);
			}
			const size_t nr = d.rules.size(), nf = d.finals.size();
			if (par % 3 != 0 && nr + nf > 0) {
				size_t k = (par / 4) % (nr + nf);
				if (k < nr) { auto it = d.rules.begin(); std::advance(it, static_cast<long>(k)); d.rules.erase(it); }
				else { auto it = d.finals.begin(); std::advance(it, static_cast<long>(k - nr)); d.finals.erase(it); }
			}
			c.B = d;
			c.nB = std::max(1, d.max_state() + 1);
			break;
		}
		case DEGENERATE: {
			c.B = noise;
			switch (par % 6) {
				case 0: c.A = TA(); break;                               // empty automaton
				case 1: c.B = TA(); break;
				case 2: c.A.finals.clear(); break;                       // no final state
				case 3: c.B.finals.clear(); break;
				case 4: c.A.finals.insert(c.nA); c.nA += 1; break;       // final state without rules
				case 5: c.B.finals.insert(c.nB); c.nB += 1; break;
			}
			break;
		}
	}
	c.swapped = (h[7] & 1) && c.strategy != INDEP;
	if (c.swapped) { std::swap(c.A, c.B); std::swap(c.nA, c.nB); }
	c.nA = std::max(c.nA, c.A.max_state() + 1);
	c.nB = std::max(c.nB, c.B.max_state() + 1);
	c.numA = make_numbering(h[4], c.nA, denseNumbering);
	c.numB = make_numbering(h[5], c.nB, denseNumbering);
	c.orderA = shuffled(c.A.rules, h[7] / 2);
	c.orderB = shuffled(c.B.rules, h[7] / 8);
	return c;
}

inline std::string describe_pair(const PairCase& c)
{
	std::ostringstream os;
	os << "strategy " << strategy_name(c.strategy) << (c.swapped ? " (swapped)" : "") << "\n";
	os << "numbering A " << c.numA.str() << "\n" << ref::to_timbuk(c.A, "A", {}, &c.orderA);
	os << "numbering B " << c.numB.str() << "\n" << ref::to_timbuk(c.B, "B", {}, &c.orderB);
	return os.str();
}

inline std::string describe_ta(const TACase& c)
{
	std::ostringstream os;
	os << "numbering " << c.num.str() << "\n" << ref::to_timbuk(c.A, "A", {}, &c.order);
	return os.str();
}

} // namespace gen
