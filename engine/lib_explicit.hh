// Adapters between the reference model and VATA::ExplicitTreeAut.
// Construction goes through AddTransition / SetStateFinal (or, on request,
// through the Timbuk loader); reading goes through the public iteration API.
#pragma once
#include "gen_ta.hh"
#include "ref_ta.hh"

#include <vata/explicit_tree_aut.hh>
#include <vata/parsing/timbuk_parser.hh>
#include <vata/serialization/timbuk_serializer.hh>

namespace lib {

using VATA::ExplicitTreeAut;
using StateType = VATA::AutBase::StateType;
using SymbolType = ExplicitTreeAut::SymbolType;
using Alphabet = ExplicitTreeAut::AlphabetType;

inline SymbolType sym_to_lib(const Alphabet& alpha, int refsym)
{
	auto tr = alpha->GetSymbolTransl();
	return (*tr)(ExplicitTreeAut::StringRank(ref::symname(refsym), static_cast<size_t>(ref::arity(refsym))));
}

inline int sym_to_ref(const Alphabet& alpha, SymbolType s)
{
	auto bt = alpha->GetSymbolBackTransl();
	ExplicitTreeAut::StringRank sr = (*bt)(s);
	return ref::symtab().id(sr.symbolStr, static_cast<int>(sr.rank));
}

// register symbols in the given order
inline void register_symbols(const Alphabet& alpha, const std::vector<int>& syms)
{
	for (int s : syms) sym_to_lib(alpha, s);
}

// a fresh private on-the-fly alphabet whose symbol numbers differ from those of the process-wide default alphabet:
// two symbols nobody uses come first, then the given symbols in a permuted order
inline Alphabet private_alphabet(const std::vector<int>& syms, uint32_t seed)
{
	Alphabet alpha(new ExplicitTreeAut::OnTheFlyAlphabet);
	auto tr = alpha->GetSymbolTransl();
	(*tr)(ExplicitTreeAut::StringRank("zz_unused", 1));
	(*tr)(ExplicitTreeAut::StringRank("zz_unused", 0));
	std::vector<int> v(syms);
	for (size_t i = v.size(); i > 1; --i) std::swap(v[i - 1], v[gen::mix(seed, i + 99) % i]);
	for (int sy : v) sym_to_lib(alpha, sy);
	return alpha;
}

// build through the mutating API, rules in the given order
inline void fill(ExplicitTreeAut& aut, const ref::TA& A, const std::vector<ref::Rule>& order,
	const gen::Numbering& num)
{
	Alphabet alpha = aut.GetAlphabet();
	for (auto& r : order) {
		ExplicitTreeAut::StateTuple ch;
		for (int c : r.ch) ch.push_back(num(c));
		aut.AddTransition(ch, sym_to_lib(alpha, r.sym), num(r.par));
	}
	for (int f : A.finals) aut.SetStateFinal(num(f));
}

inline ExplicitTreeAut build(const ref::TA& A, const std::vector<ref::Rule>& order, const gen::Numbering& num)
{
	ExplicitTreeAut aut;
	fill(aut, A, order, num);
	return aut;
}

inline ExplicitTreeAut build(const ref::TA& A, const gen::Numbering& num)
{
	std::vector<ref::Rule> order(A.rules.begin(), A.rules.end());
	return build(A, order, num);
}

inline gen::Numbering identity_numbering(int n)
{
	return gen::make_numbering(0, n, true);
}

inline ExplicitTreeAut build(const ref::TA& A)
{
	return build(A, identity_numbering(A.max_state() + 1));
}

// load through the Timbuk parser with a translator that realises the numbering
inline ExplicitTreeAut load(const ref::TA& A, const std::vector<ref::Rule>& order, const gen::Numbering& num)
{
	ExplicitTreeAut aut;
	VATA::Parsing::TimbukParser parser;
	VATA::AutBase::StateDict dict;
	VATA::AutBase::StringToStateTranslWeak transl(dict,
		[&num](const std::string& name) -> StateType { return num(atoi(name.c_str() + 1)); });
	aut.LoadFromString(parser, ref::to_timbuk(A, "A", {}, &order), transl);
	return aut;
}

// read through iteration; back = library state number -> model state
inline ref::TA read(const ExplicitTreeAut& aut, const Alphabet& alpha,
	const std::function<int(StateType)>& back = [](StateType s) { return static_cast<int>(s); })
{
	ref::TA t;
	for (const ExplicitTreeAut::Transition& tr : aut) {
		ref::Rule r;
		r.sym = sym_to_ref(alpha, tr.GetSymbol());
		r.par = back(tr.GetParent());
		for (StateType c : tr.GetChildren()) r.ch.push_back(back(c));
		t.rules.insert(r);
	}
	for (StateType f : aut.GetFinalStates()) t.finals.insert(back(f));
	return t;
}

inline ref::TA read(const ExplicitTreeAut& aut)
{
	return read(aut, aut.GetAlphabet());
}

// inverse of a numbering on 0..n-1 (library number -> model state); unknown numbers map to -1-number
inline std::function<int(StateType)> inverse(const gen::Numbering& num)
{
	std::map<StateType,int> m;
	for (size_t i = 0; i < num.tab.size(); ++i) m[num.tab[i]] = static_cast<int>(i);
	return [m](StateType s) {
		auto it = m.find(s);
		return it == m.end() ? -1 - static_cast<int>(s) : it->second;
	};
}

} // namespace lib
