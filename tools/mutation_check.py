#!/usr/bin/env python3
"""Sensitivity validation (DESIGN §7): applies each patch of mutants/ or seeded/*/patch.diff to a scratch
worktree of /repo (outside /repo and /verif), points the driver at it (VERIF_REPO) and runs the quick (or
thorough) check of the targeted properties, expecting a VIOLATION.  Not a registered command.

  tools/mutation_check.py [--tier quick|thorough] [--jobs N] [--checks C01,C07] patch [patch...]

Patch header lines understood:   # property: C01,C19      (checks to run)
"""
import concurrent.futures as cf
import json
import os
import re
import shutil
import subprocess
import sys
import time

VERIF = os.path.dirname(os.path.dirname(os.path.abspath(__file__)))


def props_of(patch):
    meta = os.path.join(os.path.dirname(patch), "meta.json")
    if os.path.exists(meta):
        m = json.load(open(meta))
        return m.get("run_checks") or [m["property"]]
    for line in open(patch, errors="replace"):
        m = re.match(r"#\s*property:\s*(.*)", line)
        if m:
            return [x.strip() for x in m.group(1).split(",")]
    raise SystemExit(f"{patch}: no '# property:' header / meta.json")


def run_one(patch, tier, only=None):
    name = re.sub(r"[^A-Za-z0-9_.-]", "_", os.path.relpath(patch, VERIF))
    wt = f"/tmp/mut_{name}_{os.getpid()}"
    out = {"patch": os.path.relpath(patch, VERIF), "results": {}}
    subprocess.run(["git", "-C", "/repo", "worktree", "remove", "--force", wt], stdout=subprocess.DEVNULL, stderr=subprocess.DEVNULL)
    r = subprocess.run(["git", "-C", "/repo", "worktree", "add", "-q", "--detach", wt, "HEAD"], stdout=subprocess.PIPE, stderr=subprocess.STDOUT, text=True, errors="replace")
    if r.returncode != 0:
        out["error"] = r.stdout
        return out
    try:
        r = subprocess.run(["git", "-C", wt, "apply", "--whitespace=nowarn", patch], stdout=subprocess.PIPE, stderr=subprocess.STDOUT, text=True, errors="replace")
        if r.returncode != 0:
            r = subprocess.run(["patch", "-d", wt, "-p1", "-i", patch], stdout=subprocess.PIPE, stderr=subprocess.STDOUT, text=True, errors="replace")
            if r.returncode != 0:
                out["error"] = "patch does not apply: " + r.stdout[-500:]
                return out
        for pid in (only or props_of(patch)):
            tmp = f"/tmp/mut_out_{name}_{pid}_{os.getpid()}"
            env = dict(os.environ, VERIF_REPO=wt, VERIF_EVIDENCE_DIR=tmp + "/evidence", VERIF_REPLAY_DIR=tmp + "/replays")
            t0 = time.time()
            r = subprocess.run([os.path.join(VERIF, "bin", "check"), pid, "--tier", tier], env=env, stdout=subprocess.PIPE, stderr=subprocess.STDOUT, text=True, errors="replace")
            sigs = re.findall(r"signature: (.*)", r.stdout)
            rc = r.returncode
            if rc == 1 and "VIOLATION property=" not in r.stdout:
                rc = 3          # the driver itself died (traceback): never count that as "caught"
            out["results"][pid] = {"exit": rc, "wall_s": round(time.time() - t0), "signatures": sigs[:4],
                                   "tail": "" if (rc == 1 and sigs) else r.stdout[-700:]}
            shutil.rmtree(tmp, ignore_errors=True)
    finally:
        subprocess.run(["git", "-C", "/repo", "worktree", "remove", "--force", wt], stdout=subprocess.DEVNULL, stderr=subprocess.DEVNULL)
        shutil.rmtree(wt, ignore_errors=True)
    return out


def main():
    args = sys.argv[1:]
    tier, jobs, patches, only = "quick", 2, [], None
    i = 0
    while i < len(args):
        if args[i] == "--tier":
            tier = args[i + 1]; i += 2
        elif args[i] == "--checks":
            only = args[i + 1].split(","); i += 2
        elif args[i] == "--jobs":
            jobs = int(args[i + 1]); i += 2
        else:
            patches.append(os.path.abspath(args[i])); i += 1
    with cf.ThreadPoolExecutor(max_workers=jobs) as ex:
        for res in ex.map(lambda p: run_one(p, tier, only), patches):
            caught = [p for p, r in res.get("results", {}).items() if r["exit"] == 1]
            status = "CAUGHT by " + ",".join(caught) if caught else ("ERROR " + res.get("error", "") if "error" in res else "MISSED")
            print(f"{res['patch']}: {status}")
            for p, r in res.get("results", {}).items():
                print(f"    {p}: exit={r['exit']} {r['wall_s']}s {'; '.join(r['signatures'])} {r['tail'][-600:]}")
            sys.stdout.flush()


if __name__ == "__main__":
    main()
