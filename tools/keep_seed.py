#!/usr/bin/env python3
"""Stores a confirmed seeded change under seeded/<name>/ (patch.diff, demonstration, meta.json).
usage: tools/keep_seed.py <property> <name> <seed dir> <needs text> [extra checks, comma separated]"""
import json, os, shutil, sys
VERIF = os.path.dirname(os.path.dirname(os.path.abspath(__file__)))
pid, name, src, needs = sys.argv[1:5]
extra = sys.argv[5].split(",") if len(sys.argv) > 5 and sys.argv[5] else []
dst = os.path.join(VERIF, "seeded", name)
os.makedirs(dst, exist_ok=True)
for f in ("patch.diff", "demo.cc", "build_demo.sh", "notes.md"):
    if os.path.exists(os.path.join(src, f)):
        shutil.copy(os.path.join(src, f), dst)
files = [l.split()[-1][2:] for l in open(os.path.join(dst, "patch.diff")) if l.startswith("+++ b/")]
meta = {
    "property": pid,
    "run_checks": [pid] + extra,
    "author": "independent sub-agent given only the property text and a scratch worktree (nothing from /verif)",
    "files_changed": files,
    "needs_to_manifest": needs,
    "confirmed_by": "tools/validate_seed.sh in the scratch worktree: patch applies, library compiles, the repository's test suite gives the baseline result "
                    "(only bdd_bu_tree_aut_test fails, with exactly aut_down_inclusion_rec_nosim and aut_down_inclusion_opt_rec_nosim), demo exits non-zero with the change and 0 without it",
}
json.dump(meta, open(os.path.join(dst, "meta.json"), "w"), indent=1)
print("kept", dst, files)
