#!/usr/bin/env python3
"""Builds the catch matrix (DESIGN §10) from the logs of tools/mutation_check.py under notes/runs/."""
import glob, json, os, re, sys
VERIF = os.path.dirname(os.path.dirname(os.path.abspath(__file__)))
rows = {}
for log in sorted(glob.glob(os.path.join(VERIF, "notes", "runs", "*.log"))):
    cur = None
    for line in open(log, errors="replace"):
        m = re.match(r"(\S+\.(?:patch|diff)): (CAUGHT by (\S+)|MISSED|ERROR.*)", line)
        if m:
            cur = m.group(1)
            rows[cur] = {"status": m.group(2), "checks": {}, "log": os.path.basename(log)}   # later logs override earlier ones
            continue
        m = re.match(r"\s+(C\d\d): exit=(\d+) (\d+)s\s*(.*)", line)
        if m and cur:
            rows[cur]["checks"][m.group(1)] = (int(m.group(2)), int(m.group(3)), m.group(4).strip()[:110])
print("| change | breaks | result | check: first signature(s) (wall time of the quick tier on a loaded machine) |")
print("|---|---|---|---|")
for k in sorted(rows):
    r = rows[k]
    name = k.replace("seeded/", "").replace("/patch.diff", "").replace("mutants/", "").replace(".patch", "")
    prop = ""
    meta = os.path.join(VERIF, os.path.dirname(k), "meta.json")
    if os.path.exists(meta):
        prop = json.load(open(meta))["property"]
    else:
        for l in open(os.path.join(VERIF, k), errors="replace"):
            m = re.match(r"#\s*property:\s*(.*)", l)
            if m:
                prop = m.group(1).strip(); break
    det = "; ".join(f"{c}: {'`'+s+'`' if e == 1 and s else ('violation' if e == 1 else 'green')} ({t}s)" for c, (e, t, s) in r["checks"].items())
    print(f"| {name} | {prop} | {'caught' if r['status'].startswith('CAUGHT') else r['status'].lower()} | {det} |")
