#!/bin/sh
# Soundness sweep: every quick check with several seeds on the unchanged tree; prints one line per run.
# usage: tools/seed_sweep.sh "2 3 4" "C01 C02 ..."
cd "$(dirname "$0")/.."
for s in $1; do
  for p in $2; do
    out=$(VERIF_SEED=$s bin/check $p --tier ${TIER:-quick} 2>&1)
    rc=$?
    echo "seed=$s $p rc=$rc $(echo "$out" | grep -E '^(OK|VIOLATION|ERROR|KNOWN)' | head -3 | tr '\n' ' ')"
  done
done
