#!/bin/bash
# Runs every thorough command once (sequentially, VERIF_SEED as given or 1) and prints one line per check.
# usage: tools/thorough_sweep.sh [ids...]     (run through `vp run` so that /verif's evidence is not replaced)
cd "$(dirname "$0")/.."
IDS=${@:-C01 C02 C03 C04 C05 C06 C07 C08 C09 C10 C11 C12 C13 C14 C15 C16 C17 C18 C19 C20}
for id in $IDS; do
  t0=$(date +%s)
  bin/check $id --tier thorough > /tmp/thorough_$id.$$.log 2>&1; rc=$?
  echo "$id exit=$rc $(( $(date +%s) - t0 ))s $(grep -E '^(OK|VIOLATION|KNOWN-FINDING|ERROR)' /tmp/thorough_$id.$$.log | head -3 | tr '\n' ' ' | cut -c1-400)"
  [ $rc -ne 0 ] && grep -v WARNING /tmp/thorough_$id.$$.log | tail -15 | cut -c1-400
  rm -f /tmp/thorough_$id.$$.log
done
