#!/usr/bin/env python3
"""Writes the task text handed to an independent seeding sub-agent (DESIGN §7): the text of ONE property, the scratch
worktree to work in, build/baseline instructions, the deliverable layout expected by tools/validate_seed.sh and -
for later rounds - a one-line description of the changes already seeded for that property (so that they are not
repeated). Nothing about the checks of /verif goes into it.
usage: tools/seed_prompt.py <property id> <worktree dir> [round number]"""
import sys, json, glob, os
VERIF = os.path.dirname(os.path.dirname(os.path.abspath(__file__)))
pid, d = sys.argv[1], sys.argv[2]
rnd = int(sys.argv[3]) if len(sys.argv) > 3 else 1
p = [x for x in (json.loads(l) for l in open(os.path.join(VERIF, "properties.jsonl"))) if x["id"] == pid][0]
prop = "**%s**\n\n%s\n\nQuantification: %s\n\nWhy the existing tests cannot settle it: %s\n\nSource files the property is anchored in: %s" % (
    p["title"], p["statement"], p["quantifier"]["text"], p["why_tests_cant"], ", ".join(p["anchors"]["files"]))
one = rnd >= 3
what = "ONE realistic change (SEED1)" if one else "TWO different, realistic changes (call them SEED1 and SEED2)"
each = "the change" if one else "each change"
dirs = f"Create {d}/SEED1/ containing:" if one else f"Create {d}/SEED1/ and {d}/SEED2/, each containing:"
item4 = "" if one else "4. The two changes must be in different code sites / of different nature.\n"
text = f"""You are a mutation author for the C++11 library ondrik/libvata (tree and word automata; explicit and MTBDD-based encodings). You work ONLY inside the scratch git worktree {d} (a checkout of the library). Do NOT read, list or modify anything under /verif or /repo — your result must be independent of any existing verification machinery. Do not commit anything.

## The property

{prop}

## Your task

Produce {what} to the library sources (files under src/ or include/ of the worktree) such that for {each}:

1. the library still compiles, and the repository's existing test suite still gives its baseline result;
2. the change BREAKS the property above;
3. the breakage needs something specific to manifest — a particular input shape, an unusual parameter selection, a multi-step sequence of operations, a specific numbering of states, or two cooperating code sites that each look fine alone — NOT something that ordinary use (or the existing tests) would expose at once. Think of the kind of slip a maintainer could really make: a wrong comparison, a dropped case, an off-by-one, a cache keyed on too little, a shortcut that is valid "almost always", a missing copy, an initialisation moved, etc. Do not add code that special-cases a magic constant input just to hide (no `if (x == 12345)`); the change should look like plausible code.
{item4}
## Build and baseline

```
cd {d}
cmake -G Ninja -S . -B _build -DCMAKE_BUILD_TYPE=RelWithDebInfo -DCMAKE_CXX_FLAGS=-Wno-error >/dev/null
cmake --build _build -j6
ctest --test-dir _build -j4 --timeout 900
```
(The build uses -DNDEBUG: asserts are off.) Baseline on the UNMODIFIED tree: 5 ctest entries, 4 pass and `bdd_bu_tree_aut_test` fails only because its two cases `aut_down_inclusion_rec_nosim` and `aut_down_inclusion_opt_rec_nosim` throw NotImplementedException (check with `_build/unit_tests/bdd_bu_tree_aut_test --report_level=short`, run from `_build/unit_tests`... the tests look for `../../automata`, so run them via ctest or from the directory ctest uses). With your change the result must be exactly the same (same 2 failing cases, nothing else). The machine has 16 cores but is shared: use -j6 at most. The first build takes a few minutes.

Useful API facts: all loading goes through `LoadFromString(parser, text[, stateDict])` with `VATA::Parsing::TimbukParser` (header `vata/parsing/timbuk_parser.hh`), dumping through `DumpToString(serializer)` with `VATA::Serialization::TimbukSerializer`; Timbuk text looks like
```
Ops a:0 f:2
Automaton A
States q0 q1
Final States q1
Transitions
a -> q0
f(q0,q0) -> q1
```
Several `LoadFromAutDesc` overloads are declared but not defined; `ExplicitFiniteAut::ComputeSimulation` is unusable; inclusion with simulation is driven like `cli/operations.hh::CheckInclusion` does (SanitizeAutsForInclusion, UnionDisjointStates, ComputeSimulation with NumStates, InclParam::SetSimulation, CheckInclusion). See `unit_tests/*.cc`, `unit_tests/tree_aut_test.hh` and `cli/` for usage examples. Demo programs link with `_build/src/libvata.a` and use `-Iinclude -Isrc -std=c++11 -DNDEBUG`. MTBDD headers are header-only under `src/mtbdd/`.

## Demonstration

For {each} write a small standalone C++ program `demo.cc` that exercises the library through its public API (or, for the MTBDD / LTS engines, their headers) and exits with status 0 and prints PASS when the property holds on what it exercises, and exits non-zero and prints FAIL when it sees the violation. It must PASS on the unmodified tree and FAIL with your change applied. Verify BOTH directions yourself (build the demo against the library with and without the change) and also re-run the test suite with the change.

## Deliverables

{dirs}
- `patch.diff` — `git diff` of the library sources only (must apply with `git apply` on a clean checkout of the same commit; do not include _build, SEED dirs or demo files in it);
- `demo.cc` and `build_demo.sh` (a script that builds `demo` against `_build/src/libvata.a` of the current directory);
- `notes.md` — what the change is, why it breaks the property, what exactly it needs in order to manifest (input shape / sequence / parameters), why the existing tests do not notice, and the commands you ran with their observed results (test suite with the change; demo without and with the change).

When you are done, leave the worktree with the library sources UNMODIFIED (`git checkout -- src include`), keep the SEED directories and `_build`. Finish with a short summary (per seed: file changed, one-sentence description, what it needs to manifest).{'' if one else ' If you cannot find a second good change, deliver one and say so.'}"""
if pid == "C20":
    text += ("\n\nNote for this property: a demonstration may rely on AddressSanitizer/UBSan or valgrind to make the memory error or undefined "
             "behaviour visible (e.g. build the demo and the library objects with -fsanitize=address,undefined, or run the demo under "
             "`valgrind --error-exitcode=1`); say in build_demo.sh exactly how.")
if rnd >= 2:
    prev = []
    for m in sorted(glob.glob(os.path.join(VERIF, "seeded", pid + "-*", "meta.json"))):
        j = json.load(open(m))
        prev.append("- %s (files: %s): needs %s" % (os.path.basename(os.path.dirname(m)).split('-', 2)[2].replace('-', ' '),
                                                    ", ".join(j['files_changed']), j['needs_to_manifest'][:260]))
    text += """

## This is round %d

%d changes for this property were already written by others. Do NOT repeat them, do not make a variation of the same idea, and prefer different functions / files / aspects of the property (other operations, other parameter selections, other encodings or entry points named in the statement, other kinds of input, other clauses of the statement). The existing ones are:
%s

Aim for a change that is at least as hard to notice as those: something that only shows for a specific shape, size (e.g. thresholds such as more than 16 / 32 / 64 elements), numbering, order of operations, re-use of an object, a rarely used overload / parameter that the statement nevertheless covers, or the interplay of two code sites that each look fine alone. Read the anchored files (and what they call) first and pick the site by what the statement promises, not by what is easiest to edit.
""" % (rnd, len(prev), "\n".join(prev))
print(text)
