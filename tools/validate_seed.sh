#!/bin/bash
# Confirms a seeded change in its scratch worktree: applies patch.diff, rebuilds, runs the repository's test
# suite (baseline: only bdd_bu_tree_aut_test fails, with exactly its two NotImplemented cases), builds and runs
# the demonstration (must FAIL), reverts, rebuilds, runs the demonstration again (must PASS).
# usage: tools/validate_seed.sh <worktree> <seed dir (absolute)>
WT=$1; SEED=$2
cd "$WT" || exit 2
git checkout -q -- src include
git apply --whitespace=nowarn "$SEED/patch.diff" || { echo "RESULT patch-does-not-apply"; exit 1; }
git diff --stat -- src include | tail -1
[ -d _build ] || cmake -G Ninja -S . -B _build -DCMAKE_BUILD_TYPE=RelWithDebInfo -DCMAKE_CXX_FLAGS=-Wno-error >/dev/null
cmake --build _build -j8 >/tmp/val_build.log 2>&1 || { echo "RESULT does-not-compile"; tail -5 /tmp/val_build.log; git checkout -q -- src include; exit 1; }
ctest --test-dir _build -j4 --timeout 900 2>&1 | grep -E "tests passed|Failed|Passed" | tr '\n' ' '; echo
FAILS=$(cd _build/unit_tests && ./bdd_bu_tree_aut_test --report_level=no --log_level=error 2>&1 | grep -o 'in "suite/[a-z_]*"' | sort -u | tr '\n' ' ')
echo "bu failing cases: $FAILS"
run_demo() {
  ( cd "$SEED" && rm -f demo && { bash ./build_demo.sh >/tmp/val_demo_build.log 2>&1 || (cd "$WT" && bash "$SEED/build_demo.sh" >/tmp/val_demo_build.log 2>&1); } )
  D="$SEED/demo"; [ -x "$D" ] || D="$WT/demo"; [ -x "$D" ] || D=$(find "$SEED" "$WT" -maxdepth 2 -name 'demo*' -type f -perm -u+x -newer /tmp/val_build.log | head -1)
  [ -x "$D" ] || { echo "demo not built"; tail -5 /tmp/val_demo_build.log; return 99; }
  ( cd "$(dirname "$D")" && timeout 300 "$D" > /tmp/val_demo_out.log 2>&1 ); rc=$?
  tail -2 /tmp/val_demo_out.log | cut -c1-200
  return $rc
}
run_demo; RC_MUT=$?
git checkout -q -- src include
cmake --build _build -j8 >/tmp/val_build.log 2>&1
run_demo; RC_ORIG=$?
echo "RESULT demo_with_change=$RC_MUT demo_without_change=$RC_ORIG"
