// C08 — BDD-encoded automata: load, union, intersection, trimming keep exact languages
// Histories over pools of handles that may share one transition table.
#include "tree_common.hh"
#include "../engine/lib_bdd.hh"

const char* const harness::ID = "C08";

using VATA::BDDBottomUpTreeAut;
using VATA::BDDTopDownTreeAut;

namespace {

const size_t CAP = 20000;

struct Hist {
	eng::Ctx& ctx;
	std::ostringstream log;
	int step = 0;
	bool sharedBinary = false;     // a binary operation had an operand that shares its table with another live handle
	std::set<std::string> opsDone;
	explicit Hist(eng::Ctx& c) : ctx(c) {}
};

template <class Aut> struct EncName;
template <> struct EncName<BDDBottomUpTreeAut> { static const char* get() { return "bu"; } };
template <> struct EncName<BDDTopDownTreeAut> { static const char* get() { return "td"; } };

template <class Aut>
struct Pool {
	std::vector<std::unique_ptr<Aut>> h;
	std::vector<int> group;          // handles with equal group id (may) share a transition table
	int nextGroup = 0;
	static constexpr size_t MAX = 6;

	size_t put(Aut&& a, int grp, uint32_t sel)
	{
		if (h.size() < MAX) { h.emplace_back(new Aut(std::move(a))); group.push_back(grp); return h.size() - 1; }
		size_t i = sel % h.size();
		h[i].reset(new Aut(std::move(a)));
		group[i] = grp;
		return i;
	}
	bool shares(size_t i) const
	{
		for (size_t j = 0; j < h.size(); ++j) if (j != i && group[j] == group[i]) return true;
		return false;
	}
};

void same_language(Hist& H, const std::string& sig, const ref::TA& got, const ref::TA& want, const std::string& what)
{
	tc::expect_equiv(H.ctx, sig, got, want, "step " + std::to_string(H.step) + " " + what + " [history: " + H.log.str() + "]", CAP);
}

template <class Aut>
ref::TA observe(Hist& H, const Aut& a, const std::string& phase)
{
	eng::LibSection ls(H.ctx, phase);
	return libbdd::read(a);
}

// RemoveUnreachableStates: the bottom-up encoding documents an optional out-parameter for the states it found
inline BDDBottomUpTreeAut unreach(const BDDBottomUpTreeAut& a, bool withSet, bool& usedSet)
{
	usedSet = withSet;
	if (!withSet) return a.RemoveUnreachableStates();
	VATA::AutBase::StateHT found;       // [out] only: handed over empty
	return a.RemoveUnreachableStates(&found);
}
inline BDDTopDownTreeAut unreach(const BDDTopDownTreeAut& a, bool, bool& usedSet) { usedSet = false; return a.RemoveUnreachableStates(); }

void convert_step(Hist& H, Pool<BDDBottomUpTreeAut>& P, Pool<BDDTopDownTreeAut>& TD, size_t i, const ref::TA& before, const eng::Rec& r);
void convert_step(Hist& H, Pool<BDDTopDownTreeAut>& P, Pool<BDDTopDownTreeAut>&, size_t i, const ref::TA& before, const eng::Rec&);

template <class Aut>
void run_step(Hist& H, Pool<Aut>& P, Pool<BDDTopDownTreeAut>& TD, const eng::Rec& r,
	const std::vector<gen::TACase>& autos, size_t& lastNew, bool& biasNext)
{
	const std::string enc = EncName<Aut>::get();
	const std::string pre = "bdd-" + enc + ":";
	uint32_t op = r[0] % 12;
	// right after a step that produced a handle sharing a table, half of the steps are binary operations
	if (biasNext && (r[5] / 16) % 2 && P.h.size() >= 2) op = 4 + (r[5] / 32) % 4;
	if (P.h.empty()) op = 0;
	++H.step;
	auto pick = [&](uint32_t v) { return static_cast<size_t>(v % P.h.size()); };

	switch (op) {
		case 0: case 1: {   // load into a fresh handle
			const gen::TACase& t = autos[r[1] % autos.size()];
			// half of the loads use numbers disjoint from everything loaded before (UnionDisjointStates needs that)
			static size_t nextBase = 0;
			gen::Numbering num = gen::make_numbering(r[2], t.n, false, (r[5] % 2) ? nextBase : 0);
			nextBase = std::max(nextBase, *std::max_element(num.tab.begin(), num.tab.end()) + 1);
			H.log << H.step << ":" << enc << ".load(T" << (r[1] % autos.size()) << ",num=" << num.str() << ") ";
			Aut a;
			{ eng::LibSection ls(H.ctx, pre + "load"); a = libbdd::load<Aut>(t.A, t.order, num); }
			ref::TA d = observe(H, a, pre + "load:dump");
			same_language(H, pre + "load", d, t.A, "dump of the loaded automaton");
			lastNew = P.put(std::move(a), P.nextGroup++, r[4]);
			H.opsDone.insert("load");
			biasNext = false;
			break;
		}
		case 2: {           // copy-construct
			size_t i = pick(r[1]);
			H.log << H.step << ":" << enc << ".copy(h" << i << ") ";
			ref::TA before = observe(H, *P.h[i], pre + "copy:dump-before");
			Aut cpy(*P.h[i]);
			ref::TA d = observe(H, cpy, pre + "copy:dump");
			same_language(H, pre + "copy", d, before, "copy");
			lastNew = P.put(std::move(cpy), P.group[i], r[4]);
			H.opsDone.insert("copy");
			biasNext = true;
			break;
		}
		case 3: {           // copy-assign
			size_t i = pick(r[1]), j = pick(r[2]);
			H.log << H.step << ":" << enc << ".assign(h" << j << "=h" << i << ") ";
			ref::TA before = observe(H, *P.h[i], pre + "assign:dump-before");
			{ eng::LibSection ls(H.ctx, pre + "assign"); *P.h[j] = *P.h[i]; }
			P.group[j] = P.group[i];
			ref::TA d = observe(H, *P.h[j], pre + "assign:dump");
			same_language(H, pre + "assign", d, before, "assigned handle");
			H.opsDone.insert("assign");
			lastNew = j;
			biasNext = (i != j);
			break;
		}
		case 4: case 5: case 6: case 7: {   // binary operations
			size_t i = pick(r[1]), j = pick(r[2]);
			if (biasNext && (r[5] % 4) < 3 && lastNew < P.h.size() && P.shares(lastNew)) {
				// operate between the newest handle and a handle it shares a table with
				i = lastNew;
				std::vector<size_t> mates;
				for (size_t k = 0; k < P.h.size(); ++k) if (k != i && P.group[k] == P.group[i]) mates.push_back(k);
				if (!mates.empty()) j = mates[(r[5] / 64) % mates.size()];
				if ((r[5] / 8) % 2) std::swap(i, j);
			}
			const char* names[] = {"Union", "UnionDisjointStates", "Intersection", "Union-nomap"};
			const std::string name = names[op - 4];
			ref::TA bi = observe(H, *P.h[i], pre + name + ":dump-before");
			ref::TA bj = observe(H, *P.h[j], pre + name + ":dump-before");
			if (op == 5) {
				// documented precondition, evaluated on what a user can observe
				bool disjoint = true;
				std::set<int> si = bi.states();
				for (int q : bj.states()) if (si.count(q)) disjoint = false;
				if (!disjoint || i == j) { H.ctx.count(P.group[i] == P.group[j] ? "discarded_precondition_shared_table" : "discarded_precondition"); break; }
			}
			// products of products square in size: keep the histories cheap, and never call slowness a missing verdict
			if (op == 6 && bi.rules.size() * bj.rules.size() > 1500) { H.ctx.count("skipped_large_product"); break; }
			H.ctx.small_case(bi.rules.size() + bj.rules.size() <= 40);
			H.log << H.step << ":" << enc << "." << name << "(h" << i << ",h" << j << ") ";
			if (P.shares(i) || P.shares(j)) H.sharedBinary = true;
			Aut res;
			{
				eng::LibSection ls(H.ctx, pre + name);
				VATA::AutBase::StateToStateMap m1, m2;
				VATA::AutBase::ProductTranslMap pm;
				switch (op) {
					case 4:
						// both maps, or only one of the two optional ones
						if (r[6] % 3 == 0) res = Aut::Union(*P.h[i], *P.h[j], &m1, &m2);
						else if (r[6] % 3 == 1) res = Aut::Union(*P.h[i], *P.h[j], &m1, nullptr);
						else res = Aut::Union(*P.h[i], *P.h[j], nullptr, &m2);
						break;
					case 5: res = Aut::UnionDisjointStates(*P.h[i], *P.h[j]); break;
					case 6: res = Aut::Intersection(*P.h[i], *P.h[j], (r[6] % 2) ? &pm : nullptr); break;
					default: res = Aut::Union(*P.h[i], *P.h[j]); break;
				}
			}
			ref::TA d = observe(H, res, pre + name + ":dump");
			ref::TA want = (op == 6) ? ref::product(bi, bj) : ref::union_disjoint(bi, bj);
			same_language(H, pre + name, d, want, name);
			ref::TA ai = observe(H, *P.h[i], pre + name + ":dump-after");
			ref::TA aj = observe(H, *P.h[j], pre + name + ":dump-after");
			same_language(H, pre + name + ":lhs-changed", ai, bi, "left operand after " + name);
			same_language(H, pre + name + ":rhs-changed", aj, bj, "right operand after " + name);
			const int grp = (op == 5 || op == 4 || op == 7) ? P.group[i] : P.nextGroup++;   // unions may share lhs' table
			lastNew = P.put(std::move(res), grp, r[4]);
			H.opsDone.insert(name);
			biasNext = (op != 6);
			break;
		}
		case 8: case 9: {   // trimming
			size_t i = pick(r[1]);
			const std::string name = (op == 8) ? "RemoveUnreachableStates" : "RemoveUselessStates";
			H.log << H.step << ":" << enc << "." << name << "(h" << i << ") ";
			ref::TA before = observe(H, *P.h[i], pre + name + ":dump-before");
			Aut res;
			bool usedSet = false;
			{ eng::LibSection ls(H.ctx, pre + name); res = (op == 8) ? unreach(*P.h[i], r[6] % 2, usedSet) : P.h[i]->RemoveUselessStates(); }
			if (usedSet) H.opsDone.insert("RemoveUnreachableStates(&set)");
			ref::TA d = observe(H, res, pre + name + ":dump");
			same_language(H, pre + name, d, before, name);
			if (op == 9) {
				std::set<int> useful = d.useful();
				for (int q : d.states())
					if (!useful.count(q)) { H.ctx.fail(pre + name + ":useless-state-left", "step " + std::to_string(H.step) + ": state " + std::to_string(q) + " of the result is useless: " + d.str() + " [history: " + H.log.str() + "]"); break; }
			}
			ref::TA after = observe(H, *P.h[i], pre + name + ":dump-after");
			same_language(H, pre + name + ":operand-changed", after, before, "operand after " + name);
			lastNew = P.put(std::move(res), P.group[i], r[4]);
			H.opsDone.insert(name);
			biasNext = true;
			break;
		}
		case 10: {          // drop a handle
			if (P.h.size() <= 1) break;
			size_t i = pick(r[1]);
			H.log << H.step << ":" << enc << ".drop(h" << i << ") ";
			{ eng::LibSection ls(H.ctx, pre + "destroy"); P.h.erase(P.h.begin() + static_cast<long>(i)); }
			P.group.erase(P.group.begin() + static_cast<long>(i));
			lastNew = 0;
			H.opsDone.insert("drop");
			biasNext = false;
			break;
		}
		default: {          // BU -> TD conversion (only meaningful in the BU pool; TD: re-dump everything)
			size_t i = pick(r[1]);
			ref::TA before = observe(H, *P.h[i], pre + "convert:dump-before");
			convert_step(H, P, TD, i, before, r);
			break;
		}
	}
}

void convert_step(Hist& H, Pool<BDDBottomUpTreeAut>& P, Pool<BDDTopDownTreeAut>& TD, size_t i, const ref::TA& before, const eng::Rec& r)
{
	H.log << H.step << ":bu.GetTopDownAut(h" << i << ") ";
	BDDTopDownTreeAut td;
	{ eng::LibSection ls(H.ctx, "bdd-bu:GetTopDownAut"); td = P.h[i]->GetTopDownAut(); }
	ref::TA d = observe(H, td, "bdd-bu:GetTopDownAut:dump");
	same_language(H, "bdd-bu:GetTopDownAut", d, before, "top-down form");
	ref::TA after = observe(H, *P.h[i], "bdd-bu:GetTopDownAut:dump-after");
	same_language(H, "bdd-bu:GetTopDownAut:operand-changed", after, before, "operand after GetTopDownAut");
	TD.put(std::move(td), TD.nextGroup++, r[4]);
	H.opsDone.insert("GetTopDownAut");
}

void convert_step(Hist& H, Pool<BDDTopDownTreeAut>& P, Pool<BDDTopDownTreeAut>&, size_t i, const ref::TA& before, const eng::Rec&)
{
	// top-down pool: a second dump must read the same
	H.log << H.step << ":td.redump(h" << i << ") ";
	ref::TA again = observe(H, *P.h[i], "bdd-td:redump");
	same_language(H, "bdd-td:redump", again, before, "second dump");
}

} // namespace

void harness::run_case(const eng::Raw& raw, eng::Ctx& ctx)
{
	// layout: raw[0] header; the last k records are steps; the records in between build three automata
	const eng::Rec h = raw.empty() ? eng::Rec{} : raw[0];
	const size_t body = raw.size() > 1 ? raw.size() - 1 : 0;
	size_t k = std::min(body, static_cast<size_t>(4 + h[0] % (ctx.tier() ? 20 : 12)));
	const size_t firstStep = raw.size() - k;

	gen::Limits lim;
	lim.maxStates = ctx.tier() ? 5 : 4;
	lim.arity3 = false;
	lim.overload = true;
	std::vector<gen::TACase> autos(3);
	{
		// T0 and T1 are a related PAIR (strategies of DESIGN §3.4, split / superset / ablate weighted up), so that their
		// product is rich; T2 is independent
		eng::Raw sub;
		eng::Rec hh = h;
		hh[0] = h[5]; hh[1] = h[1]; hh[2] = h[2]; hh[3] = h[4];
		sub.push_back(hh);
		for (size_t i = 1; i < firstStep; ++i) if ((raw[i][0] / 8) % 3 != 2) sub.push_back(raw[i]);
		//                          indep sup abl split leaf detB degen
		const std::vector<int> w = {2,    2,  2,  5,    0,   1,   0};
		gen::PairCase pc = gen::decode_pair(sub, lim, w);
		autos[0].A = pc.A; autos[0].n = pc.nA; autos[0].order = pc.orderA;
		autos[1].A = pc.B; autos[1].n = pc.nB; autos[1].order = pc.orderB;
		eng::Raw sub2;
		eng::Rec h2 = h;
		h2[1] = h[3]; h2[2] = h[4];
		sub2.push_back(h2);
		for (size_t i = 1; i < firstStep; ++i) if ((raw[i][0] / 8) % 3 == 2) sub2.push_back(raw[i]);
		autos[2] = gen::decode_ta(sub2, lim, false);
	}
	std::ostringstream desc;
	for (size_t t = 0; t < 3; ++t) desc << "T" << t << ": " << autos[t].A.str() << "\n";

	Hist H(ctx);
	Pool<BDDBottomUpTreeAut> BU;
	Pool<BDDTopDownTreeAut> TD;
	size_t lastBU = 0, lastTD = 0;
	bool biasBU = false, biasTD = false;
	// the case text must be known before the library runs (a crash loses everything after it)
	{
		std::ostringstream plan;
		for (size_t i = firstStep; i < raw.size(); ++i) plan << " " << (raw[i][3] % 2 ? "td" : "bu") << ":" << raw[i][0] % 12 << "(" << raw[i][1] % 6 << "," << raw[i][2] % 6 << ")";
		ctx.describe(desc.str() + "planned steps (encoding:op(args), resolved against the live pool at run time):" + plan.str() + "\n");
	}
	ctx.small_case(false);
	// every history starts with the plain products of the related pair, in both operand orders, in both encodings
	for (uint32_t enc = 0; enc < 2; ++enc) {
		// load T0, T1, T2 (T1, T2 with numbers disjoint from everything before); the FORK U1 = T0+T1, U2 = T0+T2 (both share
		// T0's table) and its product; then the plain products of the related pair in both operand orders
		const eng::Rec pre[8] = {
			{0, 0, h[6], enc, 0, 0, 0, 0}, {0, 1, h[7], enc, 0, 1, 0, 0}, {0, 2, h[5], enc, 0, 1, 0, 0},
			{5, 0, 1, enc, 0, 3, 0, 0}, {5, 0, 2, enc, 0, 3, 0, 0}, {6, 3, 4, enc, 0, 3, h[6] % 2, 0},
			{6, 0, 1, enc, 5, 3, h[6] % 2, 0}, {6, 1, 0, enc, 5, 3, h[7] % 2, 0}};
		for (const eng::Rec& r : pre) {
			if (enc) run_step(H, TD, TD, r, autos, lastTD, biasTD);
			else run_step(H, BU, TD, r, autos, lastBU, biasBU);
		}
	}
	for (size_t i = firstStep; i < raw.size(); ++i) {
		if (raw[i][3] % 2) run_step(H, TD, TD, raw[i], autos, lastTD, biasTD);
		else run_step(H, BU, TD, raw[i], autos, lastBU, biasBU);
	}
	ctx.nontrivial(H.sharedBinary);
	for (auto& o : H.opsDone) ctx.tag("op:" + o);
	ctx.count("steps", H.step);
	{
		eng::LibSection ls(ctx, "bdd:destroy-all");
		BU.h.clear();
		TD.h.clear();
	}
}
