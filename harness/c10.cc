// C10 — finite-automata union, intersection, reversal, trimming, witness are exact
#include "../engine/ctx.hh"
#include "../engine/lib_fa.hh"

const char* const harness::ID = "C10";

using VATA::ExplicitFiniteAut;

namespace {

void expect_equiv(eng::Ctx& ctx, const std::string& sig, const ref::NFA& got, const ref::NFA& want, const std::string& what)
{
	auto r1 = ref::nfa_included(got, want);
	if (r1.verdict == ref::Tri::NO) {
		ctx.fail(sig + ":extra-word", what + " accepts " + ref::show_word(r1.witness) + " which it must not; got " + got.str());
		return;
	}
	auto r2 = ref::nfa_included(want, got);
	if (r2.verdict == ref::Tri::NO) {
		ctx.fail(sig + ":lost-word", what + " rejects " + ref::show_word(r2.witness) + " which it must accept; got " + got.str());
		return;
	}
	if (r1.verdict == ref::Tri::UNKNOWN || r2.verdict == ref::Tri::UNKNOWN) { ctx.inconclusive("oracle-cap:" + sig); return; }
	ctx.count("language_comparisons");
}

// Chains: operations applied to the RESULTS of earlier operations (and repeatedly to the same operand object).
// Every handle carries the language it must have, computed by the reference operations on the models of its
// operands - never from what the library returned - so an error made on a derived operand cannot hide.
struct FH { std::unique_ptr<ExplicitFiniteAut> aut; ref::NFA model; int fam; bool exact = false; };   // exact: the model uses the library's state numbers (derived handles carry a renumbered, trimmed model)   // fam: numbering family 0 = A, 1 = B, 2 = B' (disjoint from A), 3 = mixed

void chain(eng::Ctx& ctx, const eng::Raw& raw, const gen::NfaPairCase& c, const ExplicitFiniteAut& a, const ExplicitFiniteAut& b,
	const ref::NFA& VA, const ref::NFA& VB)
{
	std::vector<FH> pool;
	std::ostringstream log;
	auto add = [&](ExplicitFiniteAut&& x, const ref::NFA& m, int fam, bool exact = false) { pool.push_back(FH{std::unique_ptr<ExplicitFiniteAut>(new ExplicitFiniteAut(std::move(x))), m, fam, exact}); };
	{
		eng::LibSection ls(ctx, "fa-chain:setup");
		add(ExplicitFiniteAut(a), VA, 0, true);
		add(ExplicitFiniteAut(b), VB, 1, true);
		gen::Numbering nb2 = gen::make_numbering(c.header[5], c.nB, false,
			c.numA.tab.empty() ? 0 : *std::max_element(c.numA.tab.begin(), c.numA.tab.end()) + 1);
		add(libfa::build(c.B, nb2), libfa::lib_view(c.B, nb2), 2, true);
	}
	const size_t nsteps = std::min<size_t>(raw.size() > 1 ? raw.size() - 1 : 0, 4 + c.header[6] % 7);
	bool derivedBinary = false, repeatedLeft = false;
	size_t lastCopyOf = SIZE_MAX;
	std::set<size_t> usedAsLeft;
	for (size_t k = 0; k < nsteps; ++k) {
		const eng::Rec& r = raw[raw.size() - 1 - k];
		uint32_t op = r[7] % 10;
		size_t i = r[6] % pool.size(), j = (r[6] / 16) % pool.size();
		if (op == 9 && !pool[i].exact) i = r[6] % 3;      // the three initial handles always are
		if (lastCopyOf != SIZE_MAX && (op == 2 || op == 8 || op == 0) && (r[5] % 4) != 0) {
			// right after a copy step most binary operations pair the copy with its original (either order)
			i = pool.size() - 1; j = lastCopyOf;
			if ((r[5] / 4) % 2) std::swap(i, j);
		}
		if (op == 1) {
			// UnionDisjointStates needs disjoint state sets: left from the A family, right from the B' family
			std::vector<size_t> l, rr;
			for (size_t x = 0; x < pool.size(); ++x) { if (pool[x].fam == 0) l.push_back(x); if (pool[x].fam == 2) rr.push_back(x); }
			if (l.empty() || rr.empty()) continue;
			i = l[r[6] % l.size()]; j = rr[(r[6] / 16) % rr.size()];
			if ((r[6] / 256) % 2) std::swap(i, j);
		}
		if (pool[i].model.states().size() > 24 || pool[j].model.states().size() > 24) continue;
		static const char* names[] = {"Union", "UnionDisjointStates", "Intersection", "Reverse", "RemoveUnreachableStates", "RemoveUselessStates", "GetCandidateTree", "copy", "Intersection", "copy+SetStateFinal/Start"};
		const std::string name = names[op];
		log << name << "(h" << i << (op <= 2 || op == 8 ? ",h" + std::to_string(j) : "") << ")->h" << pool.size() << " ";
		ExplicitFiniteAut res;
		ref::NFA got, want;
		int fam = 3;
		try {
			eng::LibSection ls(ctx, "fa-chain:" + name);
			switch (op) {
				case 0: res = ExplicitFiniteAut::Union(*pool[i].aut, *pool[j].aut); want = ref::nfa_union(pool[i].model, pool[j].model); break;
				case 1: res = ExplicitFiniteAut::UnionDisjointStates(*pool[i].aut, *pool[j].aut); want = ref::nfa_union(pool[i].model, pool[j].model); break;
				case 2: case 8: res = ExplicitFiniteAut::Intersection(*pool[i].aut, *pool[j].aut); want = ref::nfa_product(pool[i].model, pool[j].model); break;
				case 3: res = pool[i].aut->Reverse(); want = pool[i].model.reversed(); fam = pool[i].fam; break;
				case 4: res = pool[i].aut->RemoveUnreachableStates(); want = pool[i].model; fam = pool[i].fam; break;
				case 5: res = pool[i].aut->RemoveUselessStates(); want = pool[i].model; fam = pool[i].fam; break;
				case 6: res = pool[i].aut->GetCandidateTree(); fam = pool[i].fam; break;
				case 9: {
					// a copy that shares the transitions of its original but gets a further final or start state: operations
					// between the two must follow the values, not the sharing
					res = ExplicitFiniteAut(*pool[i].aut);
					want = pool[i].model;
					fam = pool[i].fam;
					const std::set<int> st = want.states();
					if (!st.empty() && pool[i].exact) {
						auto it = st.begin();
						std::advance(it, static_cast<long>((r[5] / 4) % st.size()));
						if (r[5] % 2) { res.SetStateFinal(static_cast<VATA::AutBase::StateType>(*it)); want.finals.insert(*it); }
						else { res.SetStateStart(static_cast<VATA::AutBase::StateType>(*it), libfa::sym(res, "x")); want.starts.insert(*it); }
					}
					break;
				}
				default: res = ExplicitFiniteAut(*pool[i].aut); want = pool[i].model; fam = pool[i].fam; break;
			}
			got = libfa::read(res);
		}
		catch (const std::exception& e) { ctx.fail("fa-chain:" + name + ":exception", std::string(e.what()) + " [chain: " + log.str() + "]"); return; }
		if (op <= 2 || op == 8) {
			if (i >= 3 || j >= 3) derivedBinary = true;
			if (!usedAsLeft.insert(i).second) repeatedLeft = true;
		}
		if (op == 6) {
			auto sub = ref::nfa_included(got, pool[i].model);
			if (sub.verdict == ref::Tri::NO) { ctx.fail("fa-chain:witness:not-sublanguage", "witness of a derived automaton accepts " + ref::show_word(sub.witness) + " [chain: " + log.str() + "]"); return; }
			if (got.empty_lang() && !pool[i].model.empty_lang()) { ctx.fail("fa-chain:witness:empty", "witness of a derived automaton is empty [chain: " + log.str() + "]"); return; }
			want = got;     // any witness is fine: continue with the one returned
		}
		else {
			auto r1 = ref::nfa_included(got, want), r2 = ref::nfa_included(want, got);
			if (r1.verdict == ref::Tri::NO) { ctx.fail("fa-chain:" + name + ":extra-word", name + " on derived operands accepts " + ref::show_word(r1.witness) + " [chain: " + log.str() + "]"); return; }
			if (r2.verdict == ref::Tri::NO) { ctx.fail("fa-chain:" + name + ":lost-word", name + " on derived operands rejects " + ref::show_word(r2.witness) + " [chain: " + log.str() + "]"); return; }
			if (r1.verdict == ref::Tri::UNKNOWN || r2.verdict == ref::Tri::UNKNOWN) { ctx.inconclusive("oracle-cap:fa-chain"); return; }
		}
		ctx.count("chain_steps_checked");
		// keep the model small: continue with the reference language in trimmed form
		// (the model of a modified copy keeps its state names: the next step may address them)
		add(std::move(res), (op == 9 || op == 7) ? want : ref::nfa_trimmed(want), fam, (op == 9 || op == 7) && pool[i].exact);
		lastCopyOf = (op == 9 || op == 7) ? i : SIZE_MAX;
		if (pool.size() > 9) break;
	}
	if (derivedBinary) ctx.tag("chain:binary-op-on-derived-operand");
	if (repeatedLeft) ctx.tag("chain:left-operand-used-twice");
}

} // namespace

void harness::run_case(const eng::Raw& raw, eng::Ctx& ctx)
{
	const int maxStates = ctx.tier() ? 6 : 4;
	//                          indep sup abl split symmiss degen
	const std::vector<int> w = {6,    2,  2,  2,    1,      2};
	gen::NfaPairCase c = gen::decode_nfa_pair(raw, maxStates, 3, w);
	ctx.describe(gen::describe_nfa_pair(c));
	ctx.tag(std::string("strategy:") + gen::nstrategy_name(c.strategy));
	ctx.small_case(true);

	const ref::NFA VA = libfa::lib_view(c.A, c.numA), VB = libfa::lib_view(c.B, c.numB);
	const bool epsA = c.A.accepts({}), epsB = c.B.accepts({});
	ctx.nontrivial((epsA || epsB || c.A.starts.size() >= 2 || c.B.starts.size() >= 2) && !(c.A.empty_lang() && c.B.empty_lang()));
	if (epsA || epsB) ctx.tag("accepts-eps");
	if (c.A.starts.size() >= 2 || c.B.starts.size() >= 2) ctx.tag("several-start-states");
	{
		// a product state of which exactly one component is a start state is reachable
		bool mixed = false;
		for (int p : VA.forward_reachable()) for (int q : VB.forward_reachable())
			if (VA.starts.count(p) != VB.starts.count(q)) mixed = true;
		if (mixed) ctx.tag("mixed-start-product-state");
	}

	ExplicitFiniteAut a, b;
	{
		eng::LibSection ls(ctx, "build");
		if (c.header[7] & 64) { a = libfa::load(c.A, c.numA); b = libfa::load(c.B, c.numB); }
		else { a = libfa::build(c.A, c.numA); b = libfa::build(c.B, c.numB); }
	}
	// the operands must read back as built (dump of a freshly built automaton)
	{
		ref::NFA ra, rb;
		{ eng::LibSection ls(ctx, "dump"); ra = libfa::read(a); rb = libfa::read(b); }
		if (!(ra == VA)) ctx.fail("fa-dump:differs", "dump of A reads " + ra.str() + " but was built as " + VA.str());
		if (!(rb == VB)) ctx.fail("fa-dump:differs", "dump of B reads " + rb.str() + " but was built as " + VB.str());
	}

	// --- Union
	{
		ExplicitFiniteAut u;
		VATA::AutBase::StateToStateMap ml, mr;
		ref::NFA U;
		{ eng::LibSection ls(ctx, "fa:Union"); u = ExplicitFiniteAut::Union(a, b, &ml, &mr); U = libfa::read(u); }
		expect_equiv(ctx, "fa-union", U, ref::nfa_union(VA, VB), "Union");
		ExplicitFiniteAut u2;
		ref::NFA U2;
		{ eng::LibSection ls(ctx, "fa:Union-nomap"); u2 = ExplicitFiniteAut::Union(a, b); U2 = libfa::read(u2); }
		expect_equiv(ctx, "fa-union-nomap", U2, ref::nfa_union(VA, VB), "Union without maps");
	}
	// --- UnionDisjointStates (disjoint numbers)
	{
		gen::Numbering nb2 = gen::make_numbering(c.header[5], c.nB, false,
			c.numA.tab.empty() ? 0 : *std::max_element(c.numA.tab.begin(), c.numA.tab.end()) + 1);
		const ref::NFA VB2 = libfa::lib_view(c.B, nb2);
		ExplicitFiniteAut b2, u;
		ref::NFA U;
		{
			eng::LibSection ls(ctx, "fa:UnionDisjointStates");
			b2 = libfa::build(c.B, nb2);
			u = ExplicitFiniteAut::UnionDisjointStates(a, b2);
			U = libfa::read(u);
		}
		ref::NFA wantU(VA);
		wantU.starts.insert(VB2.starts.begin(), VB2.starts.end());
		wantU.finals.insert(VB2.finals.begin(), VB2.finals.end());
		wantU.edges.insert(VB2.edges.begin(), VB2.edges.end());
		expect_equiv(ctx, "fa-union-disjoint", U, wantU, "UnionDisjointStates");
	}
	// --- Intersection
	{
		ExplicitFiniteAut i;
		VATA::AutBase::ProductTranslMap pm;
		ref::NFA I;
		{ eng::LibSection ls(ctx, "fa:Intersection"); i = ExplicitFiniteAut::Intersection(a, b, &pm); I = libfa::read(i); }
		expect_equiv(ctx, "fa-isect", I, ref::nfa_product(VA, VB), "Intersection");
		ExplicitFiniteAut i2;
		ref::NFA I2;
		{ eng::LibSection ls(ctx, "fa:Intersection-nomap"); i2 = ExplicitFiniteAut::Intersection(a, b); I2 = libfa::read(i2); }
		expect_equiv(ctx, "fa-isect-nomap", I2, ref::nfa_product(VA, VB), "Intersection without map");
	}
	// --- Reverse
	{
		ExplicitFiniteAut r;
		ref::NFA R;
		{ eng::LibSection ls(ctx, "fa:Reverse"); r = a.Reverse(); }
		{ eng::LibSection ls(ctx, "fa:Reverse:dump"); R = libfa::read(r); }
		expect_equiv(ctx, "fa-reverse", R, VA.reversed(), "Reverse");
		// mirror twice = original language
		ExplicitFiniteAut rr;
		ref::NFA RR;
		{ eng::LibSection ls(ctx, "fa:Reverse:twice"); rr = r.Reverse(); RR = libfa::read(rr); }
		expect_equiv(ctx, "fa-reverse-twice", RR, VA, "Reverse(Reverse(A))");
	}
	// --- trimming
	{
		ExplicitFiniteAut t1, t2;
		ref::NFA T1, T2;
		{ eng::LibSection ls(ctx, "fa:RemoveUnreachableStates"); t1 = a.RemoveUnreachableStates(); T1 = libfa::read(t1); }
		expect_equiv(ctx, "fa-unreach", T1, VA, "RemoveUnreachableStates");
		{ eng::LibSection ls(ctx, "fa:RemoveUselessStates"); t2 = a.RemoveUselessStates(); T2 = libfa::read(t2); }
		expect_equiv(ctx, "fa-useless", T2, VA, "RemoveUselessStates");
		// the map argument, fresh and RE-USED (it arrives non-empty, filled by trimming the other operand)
		VATA::AutBase::StateToStateMap reused;
		ExplicitFiniteAut t3, t4, t5;
		ref::NFA T3, T4, T5;
		{
			eng::LibSection ls(ctx, "fa:trim(reused-map)");
			ExplicitFiniteAut bb(b);
			(void)bb.RemoveUnreachableStates(&reused);
			(void)bb.RemoveUselessStates(&reused);
			t3 = a.RemoveUnreachableStates(&reused); T3 = libfa::read(t3);
			t4 = a.RemoveUselessStates(&reused); T4 = libfa::read(t4);
			VATA::AutBase::StateToStateMap fresh;
			t5 = a.RemoveUselessStates(&fresh); T5 = libfa::read(t5);
		}
		expect_equiv(ctx, "fa-unreach-reused-map", T3, VA, "RemoveUnreachableStates with a re-used map");
		expect_equiv(ctx, "fa-useless-reused-map", T4, VA, "RemoveUselessStates with a re-used map");
		expect_equiv(ctx, "fa-useless-map", T5, VA, "RemoveUselessStates with a fresh map");
	}
	// --- witness
	{
		ExplicitFiniteAut wa;
		ref::NFA W;
		{ eng::LibSection ls(ctx, "fa:GetCandidateTree"); wa = a.GetCandidateTree(); W = libfa::read(wa); }
		auto r = ref::nfa_included(W, VA);
		if (r.verdict == ref::Tri::NO)
			ctx.fail("fa-witness:not-sublanguage", "witness accepts " + ref::show_word(r.witness) + " which A rejects; A = " + VA.str() + " witness " + W.str());
		if (W.empty_lang() && !VA.empty_lang())
			ctx.fail("fa-witness:empty", "witness is empty although L(A) is not; A = " + VA.str() + " witness " + W.str());
		ctx.count("witnesses_checked");
	}
	chain(ctx, raw, c, a, b, VA, VB);
}
