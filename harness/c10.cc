// C10 — finite-automata union, intersection, reversal, trimming, witness are exact
#include "../engine/ctx.hh"
#include "../engine/lib_fa.hh"

const char* const harness::ID = "C10";

using VATA::ExplicitFiniteAut;

namespace {

void expect_equiv(eng::Ctx& ctx, const std::string& sig, const ref::NFA& got, const ref::NFA& want, const std::string& what)
{
	auto r1 = ref::nfa_included(got, want);
	if (r1.verdict == ref::Tri::NO) {
		ctx.fail(sig + ":extra-word", what + " accepts " + ref::show_word(r1.witness) + " which it must not; got " + got.str());
		return;
	}
	auto r2 = ref::nfa_included(want, got);
	if (r2.verdict == ref::Tri::NO) {
		ctx.fail(sig + ":lost-word", what + " rejects " + ref::show_word(r2.witness) + " which it must accept; got " + got.str());
		return;
	}
	if (r1.verdict == ref::Tri::UNKNOWN || r2.verdict == ref::Tri::UNKNOWN) { ctx.inconclusive("oracle-cap:" + sig); return; }
	ctx.count("language_comparisons");
}

void expect_unchanged(eng::Ctx& ctx, const std::string& sig, const ExplicitFiniteAut& aut, const ref::NFA& before)
{
	ref::NFA now = libfa::read(aut);
	if (!(now == before)) ctx.fail(sig + ":operand-changed", "operand changed from " + before.str() + " to " + now.str());
}

} // namespace

void harness::run_case(const eng::Raw& raw, eng::Ctx& ctx)
{
	const int maxStates = ctx.tier() ? 6 : 4;
	//                          indep sup abl split symmiss degen
	const std::vector<int> w = {6,    2,  2,  2,    1,      2};
	gen::NfaPairCase c = gen::decode_nfa_pair(raw, maxStates, 3, w);
	ctx.describe(gen::describe_nfa_pair(c));
	ctx.tag(std::string("strategy:") + gen::nstrategy_name(c.strategy));
	ctx.small_case(true);

	const ref::NFA VA = libfa::lib_view(c.A, c.numA), VB = libfa::lib_view(c.B, c.numB);
	const bool epsA = c.A.accepts({}), epsB = c.B.accepts({});
	ctx.nontrivial((epsA || epsB || c.A.starts.size() >= 2 || c.B.starts.size() >= 2) && !(c.A.empty_lang() && c.B.empty_lang()));
	if (epsA || epsB) ctx.tag("accepts-eps");
	if (c.A.starts.size() >= 2 || c.B.starts.size() >= 2) ctx.tag("several-start-states");
	{
		// a product state of which exactly one component is a start state is reachable
		bool mixed = false;
		for (int p : VA.forward_reachable()) for (int q : VB.forward_reachable())
			if (VA.starts.count(p) != VB.starts.count(q)) mixed = true;
		if (mixed) ctx.tag("mixed-start-product-state");
	}

	ExplicitFiniteAut a, b;
	{
		eng::LibSection ls(ctx, "build");
		if (c.header[7] & 64) { a = libfa::load(c.A, c.numA); b = libfa::load(c.B, c.numB); }
		else { a = libfa::build(c.A, c.numA); b = libfa::build(c.B, c.numB); }
	}
	// the operands must read back as built (dump of a freshly built automaton)
	{
		ref::NFA ra, rb;
		{ eng::LibSection ls(ctx, "dump"); ra = libfa::read(a); rb = libfa::read(b); }
		if (!(ra == VA)) ctx.fail("fa-dump:differs", "dump of A reads " + ra.str() + " but was built as " + VA.str());
		if (!(rb == VB)) ctx.fail("fa-dump:differs", "dump of B reads " + rb.str() + " but was built as " + VB.str());
	}

	// --- Union
	{
		ExplicitFiniteAut u;
		VATA::AutBase::StateToStateMap ml, mr;
		ref::NFA U;
		{ eng::LibSection ls(ctx, "fa:Union"); u = ExplicitFiniteAut::Union(a, b, &ml, &mr); U = libfa::read(u); }
		expect_equiv(ctx, "fa-union", U, ref::nfa_union(VA, VB), "Union");
		ExplicitFiniteAut u2;
		ref::NFA U2;
		{ eng::LibSection ls(ctx, "fa:Union-nomap"); u2 = ExplicitFiniteAut::Union(a, b); U2 = libfa::read(u2); }
		expect_equiv(ctx, "fa-union-nomap", U2, ref::nfa_union(VA, VB), "Union without maps");
	}
	// --- UnionDisjointStates (disjoint numbers)
	{
		gen::Numbering nb2 = gen::make_numbering(c.header[5], c.nB, false,
			c.numA.tab.empty() ? 0 : *std::max_element(c.numA.tab.begin(), c.numA.tab.end()) + 1);
		const ref::NFA VB2 = libfa::lib_view(c.B, nb2);
		ExplicitFiniteAut b2, u;
		ref::NFA U;
		{
			eng::LibSection ls(ctx, "fa:UnionDisjointStates");
			b2 = libfa::build(c.B, nb2);
			u = ExplicitFiniteAut::UnionDisjointStates(a, b2);
			U = libfa::read(u);
		}
		ref::NFA wantU(VA);
		wantU.starts.insert(VB2.starts.begin(), VB2.starts.end());
		wantU.finals.insert(VB2.finals.begin(), VB2.finals.end());
		wantU.edges.insert(VB2.edges.begin(), VB2.edges.end());
		expect_equiv(ctx, "fa-union-disjoint", U, wantU, "UnionDisjointStates");
		{ eng::LibSection ls(ctx, "fa:dump-after-union-disjoint"); expect_unchanged(ctx, "fa-union-disjoint", a, VA); }
	}
	// --- Intersection
	{
		ExplicitFiniteAut i;
		VATA::AutBase::ProductTranslMap pm;
		ref::NFA I;
		{ eng::LibSection ls(ctx, "fa:Intersection"); i = ExplicitFiniteAut::Intersection(a, b, &pm); I = libfa::read(i); }
		expect_equiv(ctx, "fa-isect", I, ref::nfa_product(VA, VB), "Intersection");
		ExplicitFiniteAut i2;
		ref::NFA I2;
		{ eng::LibSection ls(ctx, "fa:Intersection-nomap"); i2 = ExplicitFiniteAut::Intersection(a, b); I2 = libfa::read(i2); }
		expect_equiv(ctx, "fa-isect-nomap", I2, ref::nfa_product(VA, VB), "Intersection without map");
	}
	// --- Reverse
	{
		ExplicitFiniteAut r;
		ref::NFA R;
		{ eng::LibSection ls(ctx, "fa:Reverse"); r = a.Reverse(); }
		{ eng::LibSection ls(ctx, "fa:Reverse:dump"); R = libfa::read(r); }
		expect_equiv(ctx, "fa-reverse", R, VA.reversed(), "Reverse");
		// mirror twice = original language
		ExplicitFiniteAut rr;
		ref::NFA RR;
		{ eng::LibSection ls(ctx, "fa:Reverse:twice"); rr = r.Reverse(); RR = libfa::read(rr); }
		expect_equiv(ctx, "fa-reverse-twice", RR, VA, "Reverse(Reverse(A))");
	}
	// --- trimming
	{
		ExplicitFiniteAut t1, t2;
		ref::NFA T1, T2;
		{ eng::LibSection ls(ctx, "fa:RemoveUnreachableStates"); t1 = a.RemoveUnreachableStates(); T1 = libfa::read(t1); }
		expect_equiv(ctx, "fa-unreach", T1, VA, "RemoveUnreachableStates");
		{ eng::LibSection ls(ctx, "fa:RemoveUselessStates"); t2 = a.RemoveUselessStates(); T2 = libfa::read(t2); }
		expect_equiv(ctx, "fa-useless", T2, VA, "RemoveUselessStates");
	}
	// --- witness
	{
		ExplicitFiniteAut wa;
		ref::NFA W;
		{ eng::LibSection ls(ctx, "fa:GetCandidateTree"); wa = a.GetCandidateTree(); W = libfa::read(wa); }
		auto r = ref::nfa_included(W, VA);
		if (r.verdict == ref::Tri::NO)
			ctx.fail("fa-witness:not-sublanguage", "witness accepts " + ref::show_word(r.witness) + " which A rejects; A = " + VA.str() + " witness " + W.str());
		if (W.empty_lang() && !VA.empty_lang())
			ctx.fail("fa-witness:empty", "witness is empty although L(A) is not; A = " + VA.str() + " witness " + W.str());
		ctx.count("witnesses_checked");
	}
	{
		eng::LibSection ls(ctx, "fa:dump-operands-after");
		expect_unchanged(ctx, "fa-ops:lhs", a, VA);
		expect_unchanged(ctx, "fa-ops:rhs", b, VB);
	}
}
