// C19 — results are invariant under renaming/reordering and obey the language laws
// Metamorphic relations only (no reference oracle): generated automata and the
// automata shipped in the repository.
#include "tree_common.hh"
#include "incl_common.hh"

#include <dirent.h>
#include <fstream>

const char* const harness::ID = "C19";

using VATA::ExplicitTreeAut;
using StateType = VATA::AutBase::StateType;

namespace {

struct LRule { std::string sym; size_t rank; std::vector<StateType> ch; StateType par; };

struct Plain {                 // an automaton as read through the public API
	std::vector<LRule> rules;
	std::vector<StateType> finals;
	std::set<StateType> states() const
	{
		std::set<StateType> s(finals.begin(), finals.end());
		for (auto& r : rules) { s.insert(r.par); s.insert(r.ch.begin(), r.ch.end()); }
		return s;
	}
};

Plain read_plain(const ExplicitTreeAut& a)
{
	Plain p;
	auto bt = a.GetAlphabet()->GetSymbolBackTransl();
	for (const ExplicitTreeAut::Transition& t : a) {
		ExplicitTreeAut::StringRank sr = (*bt)(t.GetSymbol());
		p.rules.push_back(LRule{sr.symbolStr, sr.rank, t.GetChildren(), t.GetParent()});
	}
	p.finals.assign(a.GetFinalStates().begin(), a.GetFinalStates().end());
	std::sort(p.finals.begin(), p.finals.end());
	std::sort(p.rules.begin(), p.rules.end(), [](const LRule& x, const LRule& y) {
		return std::tie(x.par, x.sym, x.rank, x.ch) < std::tie(y.par, y.sym, y.rank, y.ch); });
	return p;
}

// a twin: states renamed by a bijection, rules inserted in another order, symbols registered in another order
struct Twin {
	std::map<StateType, StateType> pi;
};

std::map<StateType, StateType> bijection(const std::set<StateType>& st, uint32_t seed, bool dense, size_t base = 0)
{
	std::vector<StateType> from(st.begin(), st.end()), to;
	if (dense) for (size_t i = 0; i < from.size(); ++i) to.push_back(base + i);
	else to = from;
	for (size_t i = to.size(); i > 1; --i) std::swap(to[i - 1], to[gen::mix(seed, i) % i]);
	std::map<StateType, StateType> m;
	for (size_t i = 0; i < from.size(); ++i) m[from[i]] = to[i];
	return m;
}

ExplicitTreeAut build_twin(const Plain& p, const std::map<StateType, StateType>& pi, uint32_t orderSeed,
	ExplicitTreeAut::AlphabetType& alpha)
{
	ExplicitTreeAut t;
	t.SetAlphabet(alpha);
	std::vector<size_t> idx(p.rules.size());
	for (size_t i = 0; i < idx.size(); ++i) idx[i] = i;
	for (size_t i = idx.size(); i > 1; --i) std::swap(idx[i - 1], idx[gen::mix(orderSeed, i) % i]);
	auto tr = alpha->GetSymbolTransl();
	for (size_t i : idx) {
		const LRule& r = p.rules[i];
		ExplicitTreeAut::StateTuple ch;
		for (StateType c : r.ch) ch.push_back(pi.at(c));
		t.AddTransition(ch, (*tr)(ExplicitTreeAut::StringRank(r.sym, r.rank)), pi.at(r.par));
	}
	for (size_t i = p.finals.size(); i > 0; --i) t.SetStateFinal(pi.at(p.finals[(i + orderSeed) % p.finals.size()]));
	return t;
}

// register all symbols of the operands in a permuted order in a fresh private alphabet
ExplicitTreeAut::AlphabetType permuted_alphabet(const std::vector<const Plain*>& ps, uint32_t seed)
{
	std::set<std::pair<std::string,size_t>> syms;
	for (auto p : ps) for (auto& r : p->rules) syms.insert({r.sym, r.rank});
	std::vector<std::pair<std::string,size_t>> v(syms.begin(), syms.end());
	for (size_t i = v.size(); i > 1; --i) std::swap(v[i - 1], v[gen::mix(seed, i + 99) % i]);
	ExplicitTreeAut::AlphabetType alpha(new ExplicitTreeAut::OnTheFlyAlphabet);
	auto tr = alpha->GetSymbolTransl();
	for (auto& s : v) (*tr)(ExplicitTreeAut::StringRank(s.first, s.second));
	return alpha;
}

struct M {        // shared state of one case
	eng::Ctx& ctx;
	bool corpus;
	explicit M(eng::Ctx& c, bool corp) : ctx(c), corpus(corp) {}
	std::string p(const std::string& s) const { return (corpus ? "soft:" : "") + s; }   // corpus sections are best-effort (large automata)
};

bool verdict(M& m, const ExplicitTreeAut& a, const ExplicitTreeAut& b, const inclc::Cfg& cfg, const std::string& what)
{
	bool v = inclc::run_selection(m.ctx, a, b, cfg, m.p("law:" + what + ":"));
	m.ctx.count("verdicts");
	return v;
}

void renaming_relations(M& m, const ExplicitTreeAut& a, const ExplicitTreeAut& b, uint32_t seed, uint32_t selMask, bool cheapParts = true)
{
	eng::Ctx& ctx = m.ctx;
	Plain pa, pb;
	{ eng::LibSection ls(ctx, m.p("read")); pa = read_plain(a); pb = read_plain(b); }
	std::set<StateType> sa = pa.states(), sb = pb.states();
	std::map<StateType, StateType> piA = bijection(sa, seed, false), piB = bijection(sb, seed + 1, false);
	ExplicitTreeAut::AlphabetType alpha;
	ExplicitTreeAut ta, tb;
	{
		eng::LibSection ls(ctx, m.p("build-twin"));
		alpha = permuted_alphabet({&pa, &pb}, seed);
		ta = build_twin(pa, piA, seed / 3, alpha);
		tb = build_twin(pb, piB, seed / 5, alpha);
	}
	bool moved = false;
	for (auto& kv : piA) if (kv.first != kv.second) moved = true;
	bool deep = false;
	for (auto& r : pa.rules) if (r.ch.size() >= 2) deep = true;
	ctx.nontrivial(moved && deep);

	// inclusion verdicts and emptiness
	const auto& cfgs = inclc::explicit_cfgs();
	for (size_t k = 0; k < cfgs.size(); ++k) {
		if (!((selMask >> k) & 1)) continue;
		const bool v1 = verdict(m, a, b, cfgs[k], std::string("base:") + cfgs[k].name);
		const bool v2 = verdict(m, ta, tb, cfgs[k], std::string("twin:") + cfgs[k].name);
		if (v1 != v2)
			ctx.fail(std::string("meta:renaming:incl:") + cfgs[k].name, std::string("selection ") + cfgs[k].name + " answers " + (v1 ? "included" : "not included") +
				" on the original pair and " + (v2 ? "included" : "not included") + " on the renamed / re-ordered twin");
	}
	{
		bool e1, e2;
		{ eng::LibSection ls(ctx, m.p("IsLangEmpty")); e1 = a.IsLangEmpty(); e2 = ta.IsLangEmpty(); }
		if (e1 != e2) ctx.fail("meta:renaming:emptiness", "IsLangEmpty differs between an automaton and its renamed twin");
	}
	if (!cheapParts) return;
	// sizes produced by reduction and trimming
	{
		size_t s1[6], s2[6];
		{
			eng::LibSection ls(ctx, m.p("reduce-trim"));
			ExplicitTreeAut r1 = a.Reduce(), r2 = ta.Reduce();
			ExplicitTreeAut u1 = a.RemoveUselessStates(), u2 = ta.RemoveUselessStates();
			ExplicitTreeAut n1 = a.RemoveUnreachableStates(), n2 = ta.RemoveUnreachableStates();
			Plain x;
			x = read_plain(r1); s1[0] = x.states().size(); s1[1] = x.rules.size();
			x = read_plain(r2); s2[0] = x.states().size(); s2[1] = x.rules.size();
			x = read_plain(u1); s1[2] = x.states().size(); s1[3] = x.rules.size();
			x = read_plain(u2); s2[2] = x.states().size(); s2[3] = x.rules.size();
			x = read_plain(n1); s1[4] = x.states().size(); s1[5] = x.rules.size();
			x = read_plain(n2); s2[4] = x.states().size(); s2[5] = x.rules.size();
		}
		static const char* names[] = {"Reduce:states", "Reduce:rules", "RemoveUselessStates:states", "RemoveUselessStates:rules", "RemoveUnreachableStates:states", "RemoveUnreachableStates:rules"};
		for (int i = 0; i < 6; ++i)
			if (s1[i] != s2[i]) ctx.fail(std::string("meta:renaming:size:") + names[i], std::string(names[i]) + " gives " + std::to_string(s1[i]) + " on the original and " + std::to_string(s2[i]) + " on the twin");
		ctx.count("size_comparisons");
	}
	// simulation equivariance: downward on a dense numbering, upward on the trimmed automaton
	for (int up = 0; up < 2; ++up) {
		Plain base;
		{
			eng::LibSection ls(ctx, m.p("sim:prepare"));
			base = read_plain(up ? a.RemoveUselessStates() : a);
		}
		std::set<StateType> st = base.states();
		if (st.empty() || st.size() > 400) continue;
		std::map<StateType, StateType> d0 = bijection(st, 0, true), d1 = bijection(st, seed + 7 + static_cast<uint32_t>(up), true);
		// bijection(.,0,..) with seed 0 still permutes; that is fine: both are dense numberings
		VATA::AutBase::StateDiscontBinaryRelation r0, r1;
		{
			eng::LibSection ls(ctx, m.p(up ? "sim:up" : "sim:down"));
			ExplicitTreeAut::AlphabetType a0 = permuted_alphabet({&base}, 1), a1 = permuted_alphabet({&base}, seed + 3);
			ExplicitTreeAut x0 = build_twin(base, d0, 1, a0), x1 = build_twin(base, d1, seed / 7, a1);
			VATA::SimParam sp;
			sp.SetRelation(up ? VATA::SimParam::e_sim_relation::TA_UPWARD : VATA::SimParam::e_sim_relation::TA_DOWNWARD);
			sp.SetNumStates(st.size());
			r0 = x0.ComputeSimulation(sp);
			r1 = x1.ComputeSimulation(sp);
		}
		bool differs = false;
		std::string where;
		for (StateType q : st) for (StateType r : st) {
			const bool v0 = r0.get(d0.at(q), d0.at(r)), v1 = r1.get(d1.at(q), d1.at(r));
			if (v0 != v1 && !differs) { differs = true; where = "(" + std::to_string(q) + "," + std::to_string(r) + ")"; }
		}
		if (differs) ctx.fail(std::string("meta:renaming:sim:") + (up ? "up" : "down"), std::string(up ? "upward" : "downward") +
			" simulation is not mapped to its renamed image: pair " + where + " differs between two dense numberings of the same automaton");
		ctx.count("simulation_comparisons");
	}
}

void language_laws(M& m, const ExplicitTreeAut& a, const ExplicitTreeAut& b, const ExplicitTreeAut& c, uint32_t seed, uint32_t selMask)
{
	eng::Ctx& ctx = m.ctx;
	const auto& cfgs = inclc::explicit_cfgs();
	ExplicitTreeAut ab, abc, isect, isectBU, red, trimmed, reidx, reloaded;
	{
		eng::LibSection ls(ctx, m.p("law:prepare"));
		ab = ExplicitTreeAut::Union(a, b);
		abc = ExplicitTreeAut::Union(ab, c);
		isect = ExplicitTreeAut::Intersection(a, b);
		isectBU = ExplicitTreeAut::IntersectionBU(a, b);
		red = a.Reduce();
		trimmed = a.RemoveUselessStates();
		VATA::AutBase::StateToStateMap mp;
		StateType cnt = 5;
		VATA::AutBase::StateToStateTranslWeak tr(mp, [&cnt](const StateType&) { return cnt += 2; });
		reidx = a.ReindexStates(tr);
		VATA::Serialization::TimbukSerializer ser;
		VATA::Parsing::TimbukParser parser;
		reloaded.LoadFromString(parser, a.DumpToString(ser));
	}
	struct Law { const char* name; const ExplicitTreeAut* l; const ExplicitTreeAut* r; };
	const Law laws[] = {
		{"A<=A", &a, &a}, {"A<=AuB", &a, &ab}, {"B<=AuB", &b, &ab}, {"AnB<=A", &isect, &a}, {"AnB<=B", &isect, &b},
		{"AnB(BU)<=A", &isectBU, &a}, {"AnB<=AnB(BU)", &isect, &isectBU}, {"AnB(BU)<=AnB", &isectBU, &isect},
		{"A<=(AuB)uC", &a, &abc}, {"AuB<=(AuB)uC", &ab, &abc},       // transitivity on a chain built by construction
		{"A<=Reduce(A)", &a, &red}, {"Reduce(A)<=A", &red, &a}, {"A<=trim(A)", &a, &trimmed}, {"trim(A)<=A", &trimmed, &a},
		{"A<=reindexed(A)", &a, &reidx}, {"reindexed(A)<=A", &reidx, &a}, {"A<=reloaded(A)", &a, &reloaded}, {"reloaded(A)<=A", &reloaded, &a},
	};
	const size_t nlaws = sizeof(laws) / sizeof(laws[0]);
	for (size_t li = 0; li < nlaws; ++li) {
		if (m.corpus && (gen::mix(seed, li) % 3) != 0) continue;          // corpus: a third of the laws per case (cost)
		for (size_t k = 0; k < cfgs.size(); ++k) {
			if (!((selMask >> k) & 1)) continue;
			// generated cases: every law under 3 of the 8 selections (chosen per law), all 8 only for the agreement check below
			if (!m.corpus && (gen::mix(seed + 17, li * 8 + k) % 8) >= 3) continue;
			if (!verdict(m, *laws[li].l, *laws[li].r, cfgs[k], laws[li].name))
				ctx.fail(std::string("meta:law:") + laws[li].name + ":" + cfgs[k].name, std::string("law ") + laws[li].name + " is denied by selection " + cfgs[k].name);
		}
	}
	// all selections agree on the plain pair; transitivity as an implication
	{
		int first = -1;
		bool ab_ = false, bc_ = false, ac_ = false, have = false;
		for (size_t k = 0; k < cfgs.size(); ++k) {
			if (!((selMask >> k) & 1)) continue;
			const bool v = verdict(m, a, b, cfgs[k], std::string("agree:") + cfgs[k].name);
			if (first < 0) { first = v ? 1 : 0; ab_ = v; }
			else if ((first == 1) != v) ctx.fail(std::string("meta:agreement:") + cfgs[k].name, std::string("selection ") + cfgs[k].name + " disagrees with the first selection on the same pair");
			if (!have) {
				bc_ = verdict(m, b, c, cfgs[k], "trans:bc");
				ac_ = verdict(m, a, c, cfgs[k], "trans:ac");
				have = true;
				if (ab_ && bc_ && !ac_) ctx.fail("meta:law:transitivity", "A<=B and B<=C hold but A<=C is denied");
			}
		}
	}
}

std::vector<std::string> corpus_files(int tier)
{
	const char* repo = getenv("VERIF_REPO");
	const std::string root = repo ? repo : "/repo";
	std::vector<std::string> dirs = {root + "/tests/aut_timbuk_smaller", root + "/automata/small_timbuk", root + "/automata/moderate_artmc_timbuk"};
	(void)tier;
	std::vector<std::string> files;
	for (auto& d : dirs) {
		std::vector<std::string> fs;
		if (DIR* dp = opendir(d.c_str())) {
			while (dirent* e = readdir(dp)) {
				const std::string n(e->d_name);
				// the directories also hold expected-result files of the unit tests (simulation relations): not automata
				if (n[0] != '.' && n.find("_result") == std::string::npos) fs.push_back(d + "/" + n);
			}
			closedir(dp);
		}
		std::sort(fs.begin(), fs.end());
		files.insert(files.end(), fs.begin(), fs.end());
	}
	return files;
}

std::string slurp(const std::string& p)
{
	std::ifstream is(p);
	std::stringstream ss; ss << is.rdbuf();
	return ss.str();
}

} // namespace

void harness::run_case(const eng::Raw& raw, eng::Ctx& ctx)
{
	const eng::Rec h = raw.empty() ? eng::Rec{} : raw[0];
	const bool corpus = (h[0] % 8 == 7);
	M m(ctx, corpus);
	if (!corpus) {
		gen::Limits lim;
		lim.maxStates = ctx.tier() ? 5 : 4;
		lim.arity3 = true;
		lim.fanoutEvery = 8;
		const std::vector<int> w = {4, 2, 3, 3, 1, 1, 1};
		gen::PairCase c = gen::decode_pair(raw, lim, w);
		// a third automaton for the chains: B with the rules of A added under disjoint numbers is built by the library (Union)
		ctx.describe("generated\n" + gen::describe_pair(c) + "twin seed " + std::to_string(h[6]) + "\n");
		ctx.tag("source:generated");
		// the laws are checked on derived automata (products, unions): a slow downward run is never evidence here
		ctx.small_case(false);
		ExplicitTreeAut a, b;
		{ eng::LibSection ls(ctx, "build"); a = lib::build(c.A, c.orderA, c.numA); b = lib::build(c.B, c.orderB, c.numB); }
		renaming_relations(m, a, b, h[6] * 31 + h[7], 0xff);
		if (!c.A.empty_lang() || !c.B.empty_lang()) language_laws(m, a, b, (h[7] % 2) ? a : b, h[6], 0xff);
		return;
	}
	// repository automata: one pair, a sampled selection set, best-effort budget per call
	std::vector<std::string> files = corpus_files(ctx.tier());
	if (files.size() < 2) { ctx.machinery_error("repository automata not found"); return; }
	const std::string f1 = files[h[1] % files.size()], f2 = files[h[2] % files.size()], f3 = files[h[3] % files.size()];
	// upward selections always answer quickly; downward ones are exponential on some instances: one of each per case
	const uint32_t selMask = (1u << (h[4] % 2)) | (1u << (2 + h[5] % 6));
	ctx.describe("corpus " + f1 + " " + f2 + " " + f3 + " selections-mask " + std::to_string(selMask) + " twin seed " + std::to_string(h[6]) + "\n");
	ctx.tag("source:repository-corpus");
	ctx.small_case(false);
	ExplicitTreeAut a, b, c;
	{
		eng::LibSection ls(ctx, "soft:load-corpus");
		VATA::Parsing::TimbukParser parser;
		a.LoadFromString(parser, slurp(f1));
		b.LoadFromString(parser, slurp(f2));
		c.LoadFromString(parser, slurp(f3));
	}
	// cheap relations and the upward selection first; the downward selection (may exceed the budget) last
	const uint32_t upMask = selMask & 3u, downMask = selMask & ~3u;
	renaming_relations(m, a, b, h[6] * 31 + h[7], upMask);
	language_laws(m, a, b, c, h[6], upMask);
	ctx.count("corpus_cases_upward_part_completed");
	renaming_relations(m, a, b, h[6] * 31 + h[7], downMask, false);
	language_laws(m, a, b, c, h[6] + 1, downMask);
	ctx.count("corpus_cases_completed");
}
