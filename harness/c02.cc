// C02 — union and intersection of explicit tree automata have exact language semantics
#include "tree_common.hh"
#include "../engine/dump_reader.hh"
#include <vata/util/util.hh>

const char* const harness::ID = "C02";

using VATA::ExplicitTreeAut;
using StateMap = VATA::AutBase::StateToStateMap;
using ProdMap = VATA::AutBase::ProductTranslMap;

namespace {

// L(result from state n) == L(operand from state p) for every mapped state that occurs in the result
void check_union_map(eng::Ctx& ctx, const std::string& sig, const ref::TA& U, const ref::TA& V,
	const StateMap& m, const char* side)
{
	std::set<int> ust = U.states();
	int checked = 0;
	for (int p : V.states()) {
		auto it = m.find(static_cast<size_t>(p));
		if (it == m.end()) {
			ctx.fail(sig + ":map-missing", std::string(side) + " operand state " + std::to_string(p) + " has no entry in the translation map");
			return;
		}
		const int n = static_cast<int>(it->second);
		if (!ust.count(n)) continue;
		if (++checked > 6) break;
		tc::expect_equiv(ctx, sig + ":map-meaning", U.rooted(n), V.rooted(p),
			std::string("result state ") + std::to_string(n) + " named as " + side + " state " + std::to_string(p), 8000);
	}
}

void check_states_named(eng::Ctx& ctx, const std::string& sig, const ref::TA& U, const StateMap& ml, const StateMap& mr)
{
	std::set<int> img;
	for (auto& kv : ml) img.insert(static_cast<int>(kv.second));
	for (auto& kv : mr) img.insert(static_cast<int>(kv.second));
	for (int q : U.states())
		if (!img.count(q)) { ctx.fail(sig + ":unnamed-state", "result state " + std::to_string(q) + " is not the image of any operand state; result " + U.str()); return; }
}

void check_product(eng::Ctx& ctx, const std::string& sig, const ref::TA& I, const ref::TA& VA, const ref::TA& VB,
	const ProdMap& pm, const ref::TA& wantLang)
{
	tc::expect_equiv(ctx, sig, I, wantLang, sig);
	std::set<int> sa = VA.states(), sb = VB.states();
	std::map<int, std::pair<int,int>> back;
	for (auto& kv : pm) {
		const int p = static_cast<int>(kv.first.first), q = static_cast<int>(kv.first.second);
		if (!sa.count(p) || !sb.count(q)) {
			ctx.fail(sig + ":map-foreign-key", "map key (" + std::to_string(p) + "," + std::to_string(q) + ") is not a pair of operand states");
			return;
		}
		if (!back.insert({static_cast<int>(kv.second), {p, q}}).second) {
			ctx.fail(sig + ":map-not-injective", "two pairs are mapped to result state " + std::to_string(kv.second));
			return;
		}
	}
	int checked = 0;
	for (int n : I.states()) {
		auto it = back.find(n);
		if (it == back.end()) { ctx.fail(sig + ":unnamed-state", "result state " + std::to_string(n) + " is not the value of any pair; result " + I.str()); return; }
		if (++checked > 4) continue;
		ref::TA want = ref::product(VA.rooted(it->second.first), VB.rooted(it->second.second));
		tc::expect_equiv(ctx, sig + ":map-meaning", I.rooted(n), want,
			"result state " + std::to_string(n) + " named (" + std::to_string(it->second.first) + "," + std::to_string(it->second.second) + ")", 8000);
	}
}

// the flow of cli/vata.cc: load with dictionaries, optionally prune, operate with maps,
// build the result dictionary, dump with names
void cli_flow(eng::Ctx& ctx, const gen::PairCase& c, int prune)
{
	VATA::Parsing::TimbukParser parser;
	VATA::Serialization::TimbukSerializer serializer;
	VATA::AutBase::StateDict d1, d2;
	ExplicitTreeAut a, b;
	std::string unionDump, isectDump;
	{
		eng::LibSection ls(ctx, "cli:load");
		a.LoadFromString(parser, ref::to_timbuk(c.A, "A", {}, &c.orderA), d1);
		b.LoadFromString(parser, ref::to_timbuk(c.B, "B", {}, &c.orderB), d2);
		if (prune == 1) { a = a.RemoveUselessStates(); b = b.RemoveUselessStates(); }
		if (prune == 2) { a = a.RemoveUnreachableStates(); b = b.RemoveUnreachableStates(); }
	}
	{
		eng::LibSection ls(ctx, "cli:union");
		StateMap m1, m2;
		ExplicitTreeAut u = ExplicitTreeAut::Union(a, b, &m1, &m2);
		VATA::AutBase::StateDict du = VATA::Util::CreateUnionStringToStateMap(d1, d2, &m1, &m2);
		unionDump = u.DumpToString(serializer, du);
	}
	{
		eng::LibSection ls(ctx, "cli:intersection");
		ProdMap pm;
		ExplicitTreeAut i = ExplicitTreeAut::Intersection(a, b, &pm);
		VATA::AutBase::StateDict di = VATA::Util::CreateProductStringToStateMap(d1, d2, pm);
		isectDump = i.DumpToString(serializer, di);
	}
	// names: <operand name>_1 / _2 for union, [p_1|q_2] for the product
	dump::Names nu, ni;
	ref::TA U = dump::to_ta(dump::parse(unionDump), nu, false);
	ref::TA I = dump::to_ta(dump::parse(isectDump), ni, false);
	tc::expect_equiv(ctx, "cli:union", U, ref::union_disjoint(c.A, c.B), "named dump of the union");
	tc::expect_equiv(ctx, "cli:intersection", I, ref::product(c.A, c.B), "named dump of the intersection");
	for (auto& kv : nu.id) {
		const std::string& s = kv.first;
		const bool ok = s.size() > 3 && s[0] == 'q' && (s.compare(s.size() - 2, 2, "_1") == 0 || s.compare(s.size() - 2, 2, "_2") == 0);
		if (!ok) { ctx.fail("cli:union:bad-name", "state name '" + s + "' in the union dump"); break; }
		const int q = atoi(s.c_str() + 1);
		const bool left = s[s.size() - 1] == '1';
		tc::expect_equiv(ctx, "cli:union:name-meaning", U.rooted(kv.second), (left ? c.A : c.B).rooted(q), "union state " + s, 8000);
	}
	int checked = 0;
	for (auto& kv : ni.id) {
		const std::string& s = kv.first;
		int p = -1, q = -1;
		if (sscanf(s.c_str(), "[q%d_1|q%d_2]", &p, &q) != 2) { ctx.fail("cli:intersection:bad-name", "state name '" + s + "' in the product dump"); break; }
		if (++checked > 4) continue;
		tc::expect_equiv(ctx, "cli:intersection:name-meaning", I.rooted(kv.second),
			ref::product(c.A.rooted(p), c.B.rooted(q)), "product state " + s, 8000);
	}
}

} // namespace

void harness::run_case(const eng::Raw& raw, eng::Ctx& ctx)
{
	gen::Limits lim;
	lim.maxStates = ctx.tier() ? 6 : 4;
	lim.arity3 = true;
	lim.overload = true;
	lim.fanoutEvery = 8;
	//                          indep sup abl split leaf detB degen
	const std::vector<int> w = {6,    2,  2,  2,    1,   1,   2};
	gen::PairCase c = gen::decode_pair(raw, lim, w);
	const uint32_t flavour = c.header[7] / 64;
	ctx.describe(gen::describe_pair(c) + "flavour " + std::to_string(flavour % 8) + "\n");
	ctx.tag(std::string("strategy:") + gen::strategy_name(c.strategy));
	ctx.small_case(true);

	const ref::TA VA = tc::lib_view(c.A, c.numA), VB = tc::lib_view(c.B, c.numB);
	const ref::TA wantUnion = ref::union_disjoint(VA, VB);
	const ref::TA wantProd = ref::product(VA, VB);
	bool overlap = false;
	{
		std::set<int> sa = VA.states();
		for (int q : VB.states()) if (sa.count(q)) overlap = true;
	}
	ctx.nontrivial((!VA.empty_lang() && !VB.empty_lang() && !wantProd.empty_lang()) || (overlap && !wantUnion.empty_lang()));
	if (overlap) ctx.tag("overlapping-state-numbers");
	if (!wantProd.empty_lang()) ctx.tag("nonempty-intersection");

	ExplicitTreeAut a, b;
	{
		eng::LibSection ls(ctx, "build");
		a = lib::build(c.A, c.orderA, c.numA);
		b = lib::build(c.B, c.orderB, c.numB);
	}

	// --- Union with (empty) maps
	{
		StateMap ml, mr;
		ExplicitTreeAut u;
		{ eng::LibSection ls(ctx, "Union(maps)"); u = ExplicitTreeAut::Union(a, b, &ml, &mr); }
		ref::TA U = lib::read(u);
		tc::expect_equiv(ctx, "union", U, wantUnion, "Union");
		check_states_named(ctx, "union", U, ml, mr);
		check_union_map(ctx, "union", U, VA, ml, "left");
		check_union_map(ctx, "union", U, VB, mr, "right");
		tc::expect_unchanged(ctx, "union:lhs", a, VA);
		tc::expect_unchanged(ctx, "union:rhs", b, VB);
	}
	// --- Union without maps
	{
		ExplicitTreeAut u;
		{ eng::LibSection ls(ctx, "Union"); u = ExplicitTreeAut::Union(a, b); }
		tc::expect_equiv(ctx, "union-nomap", lib::read(u), wantUnion, "Union without maps");
	}
	// --- Union with pre-filled maps ([in,out] "user defined dictionary")
	if (flavour % 4 == 1 && !VA.states().empty()) {
		StateMap ml, mr;
		std::set<int> sa = VA.states();
		auto it = sa.begin();
		std::advance(it, static_cast<long>(c.header[6] % sa.size()));
		const bool colliding = (flavour % 8 == 5);
		ml[static_cast<size_t>(*it)] = colliding ? 0 : 5000;   // pre-filled entry
		ExplicitTreeAut u;
		{ eng::LibSection ls(ctx, "Union(prefilled)"); u = ExplicitTreeAut::Union(a, b, &ml, &mr); }
		ref::TA U = lib::read(u);
		// exact whenever the combined mapping is injective on Q_A + Q_B; otherwise only L ⊇ union
		std::set<size_t> vals;
		bool injective = true;
		for (auto& kv : ml) if (!vals.insert(kv.second).second) injective = false;
		for (auto& kv : mr) if (!vals.insert(kv.second).second) injective = false;
		if (injective) {
			ctx.tag("prefilled-injective");
			tc::expect_equiv(ctx, "union-prefilled", U, wantUnion, "Union with a pre-filled map");
			check_union_map(ctx, "union-prefilled", U, VA, ml, "left");
		} else {
			ctx.tag("prefilled-colliding");
			ref::InclResult r = ref::included(wantUnion, U, tc::cap(ctx));
			if (r.verdict == ref::Tri::NO)
				ctx.fail("union-prefilled:lost-tree", "Union with a colliding pre-filled map lost " + ref::show(r.witness));
		}
	}
	// --- Union with BOTH maps pre-filled: several entries per side, targets interleaved in a range above everything the
	// routine can allocate itself (it numbers fresh states from 0, there are at most |Q_A|+|Q_B| of them).  The caller's
	// entries must be honoured and no two operand states may end up in one result state.
	if (flavour % 4 == 2 && !VA.states().empty() && !VB.states().empty()) {
		StateMap ml, mr, ml0, mr0;
		const std::set<int> sa = VA.states(), sb = VB.states();
		const size_t base = sa.size() + sb.size() + 1 + c.header[6] % 3;
		size_t il = 0, ir = 0;
		for (int q : sa) if (gen::mix(c.header[6], static_cast<uint64_t>(q) + 5) % 2) ml[static_cast<size_t>(q)] = base + 2 * (il++) + 1 + 2 * (c.header[5] % 2);
		for (int q : sb) if (gen::mix(c.header[6], static_cast<uint64_t>(q) + 77) % 2) mr[static_cast<size_t>(q)] = base + 2 * (ir++);
		ml0 = ml; mr0 = mr;
		ExplicitTreeAut u;
		{ eng::LibSection ls(ctx, "Union(both-prefilled)"); u = ExplicitTreeAut::Union(a, b, &ml, &mr); }
		const ref::TA U = lib::read(u);
		ctx.count("union_both_maps_prefilled");
		bool kept = true;
		for (auto& kv : ml0) if (!ml.count(kv.first) || ml[kv.first] != kv.second) kept = false;
		for (auto& kv : mr0) if (!mr.count(kv.first) || mr[kv.first] != kv.second) kept = false;
		if (!kept) ctx.fail("union-both-prefilled:entry-changed", "an entry the caller had put into a translation map was changed or removed");
		std::map<size_t, std::string> owner;
		std::string clash;
		for (auto& kv : ml) { auto ins = owner.insert({kv.second, "A:" + std::to_string(kv.first)}); if (!ins.second) clash = ins.first->second + " and A:" + std::to_string(kv.first); }
		for (auto& kv : mr) { auto ins = owner.insert({kv.second, "B:" + std::to_string(kv.first)}); if (!ins.second) clash = ins.first->second + " and B:" + std::to_string(kv.first); }
		if (!clash.empty())
			ctx.fail("union-both-prefilled:states-merged", "operand states " + clash + " are mapped to the same result state although the caller's numbers (>= " +
				std::to_string(base) + ") are out of reach of the routine's own numbering");
		else {
			tc::expect_equiv(ctx, "union-both-prefilled", U, wantUnion, "Union with both maps pre-filled");
			check_union_map(ctx, "union-both-prefilled", U, VA, ml, "left");
			check_union_map(ctx, "union-both-prefilled", U, VB, mr, "right");
		}
	}
	// --- UnionDisjointStates (operands with disjoint state numbers)
	{
		gen::Numbering nb2 = gen::make_numbering(c.header[5], c.nB, false,
			c.numA.tab.empty() ? 0 : *std::max_element(c.numA.tab.begin(), c.numA.tab.end()) + 1);
		const ref::TA VB2 = tc::lib_view(c.B, nb2);
		ExplicitTreeAut b2, u;
		{
			eng::LibSection ls(ctx, "UnionDisjointStates");
			b2 = lib::build(c.B, c.orderB, nb2);
			u = ExplicitTreeAut::UnionDisjointStates(a, b2);
		}
		ref::TA U = lib::read(u);
		tc::expect_equiv(ctx, "union-disjoint", U, ref::union_plain(VA, VB2), "UnionDisjointStates");
		tc::expect_unchanged(ctx, "union-disjoint:lhs", a, VA);
		tc::expect_unchanged(ctx, "union-disjoint:rhs", b2, VB2);
	}
	// --- Intersection / IntersectionBU
	for (int bu = 0; bu < 2; ++bu) {
		const std::string name = bu ? "IntersectionBU" : "Intersection";
		ProdMap pm;
		ExplicitTreeAut i;
		{
			eng::LibSection ls(ctx, name + "(map)");
			i = bu ? ExplicitTreeAut::IntersectionBU(a, b, &pm) : ExplicitTreeAut::Intersection(a, b, &pm);
		}
		ref::TA I = lib::read(i);
		check_product(ctx, bu ? "isect-bu" : "isect", I, VA, VB, pm, wantProd);
		ExplicitTreeAut i2;
		{
			eng::LibSection ls(ctx, name);
			i2 = bu ? ExplicitTreeAut::IntersectionBU(a, b) : ExplicitTreeAut::Intersection(a, b);
		}
		tc::expect_equiv(ctx, bu ? "isect-bu-nomap" : "isect-nomap", lib::read(i2), wantProd, name + " without map");
		tc::expect_unchanged(ctx, (bu ? "isect-bu" : "isect") + std::string(":lhs"), a, VA);
		tc::expect_unchanged(ctx, (bu ? "isect-bu" : "isect") + std::string(":rhs"), b, VB);
	}
	// --- Union with exactly one of the two optional maps supplied
	for (int side = 0; side < 2; ++side) {
		StateMap m;
		ExplicitTreeAut u;
		{ eng::LibSection ls(ctx, side ? "Union(right-map-only)" : "Union(left-map-only)"); u = side ? ExplicitTreeAut::Union(a, b, nullptr, &m) : ExplicitTreeAut::Union(a, b, &m, nullptr); }
		ref::TA U = lib::read(u);
		tc::expect_equiv(ctx, side ? "union-right-map" : "union-left-map", U, wantUnion, "Union with one map");
		check_union_map(ctx, side ? "union-right-map" : "union-left-map", U, side ? VB : VA, m, side ? "right" : "left");
	}
	// --- an operand that is a COPY of the other one sharing its rule storage, with its own final states
	{
		ref::TA VC;
		VC.rules = VA.rules;
		for (int q : VA.states()) if (gen::mix(c.header[6], static_cast<uint64_t>(q) + 5) % 2) VC.finals.insert(q);
		ExplicitTreeAut cpy;
		{
			eng::LibSection ls(ctx, "copy-with-own-finals");
			cpy = ExplicitTreeAut(a, true, false);
			for (int q : VC.finals) cpy.SetStateFinal(static_cast<size_t>(q));
		}
		const ref::TA wantP = ref::product(VA, VC), wantP2 = ref::product(VC, VA);
		for (int bu = 0; bu < 2; ++bu) {
			ProdMap pm, pm2;
			ExplicitTreeAut i, i2;
			{
				eng::LibSection ls(ctx, bu ? "IntersectionBU(shared-storage)" : "Intersection(shared-storage)");
				i = bu ? ExplicitTreeAut::IntersectionBU(a, cpy, &pm) : ExplicitTreeAut::Intersection(a, cpy, &pm);
				i2 = bu ? ExplicitTreeAut::IntersectionBU(cpy, a, &pm2) : ExplicitTreeAut::Intersection(cpy, a, &pm2);
			}
			check_product(ctx, bu ? "isect-bu-shared-storage" : "isect-shared-storage", lib::read(i), VA, VC, pm, wantP);
			check_product(ctx, bu ? "isect-bu-shared-storage" : "isect-shared-storage", lib::read(i2), VC, VA, pm2, wantP2);
		}
		ExplicitTreeAut u;
		{ eng::LibSection ls(ctx, "Union(shared-storage)"); u = ExplicitTreeAut::Union(a, cpy); }
		tc::expect_equiv(ctx, "union-shared-storage", lib::read(u), ref::union_disjoint(VA, VC), "Union of an automaton with a copy that has other final states");
		tc::expect_unchanged(ctx, "shared-storage:lhs", a, VA);
		tc::expect_unchanged(ctx, "shared-storage:copy", cpy, VC);
		if (!wantP.empty_lang()) ctx.tag("shared-storage-product-nonempty");
	}
	// --- caller-supplied pre-filled product maps: the complete map of a previous call (same operands), also across
	//     the two intersection algorithms (their values are dense 0..size-1, so new pairs cannot collide)
	{
		ProdMap fromTD, fromBU;
		{
			eng::LibSection ls(ctx, "Intersection:collect-maps");
			(void)ExplicitTreeAut::Intersection(a, b, &fromTD);
			(void)ExplicitTreeAut::IntersectionBU(a, b, &fromBU);
		}
		struct V { const char* name; bool bu; const ProdMap* pre; };
		const V variants[] = {{"isect-bu-reused-map", true, &fromBU}, {"isect-reused-map", false, &fromTD},
			{"isect-bu-map-of-isect", true, &fromTD}, {"isect-map-of-isect-bu", false, &fromBU}};
		for (const V& v : variants) {
			ProdMap pm(*v.pre);
			ExplicitTreeAut i;
			{
				eng::LibSection ls(ctx, std::string(v.name));
				i = v.bu ? ExplicitTreeAut::IntersectionBU(a, b, &pm) : ExplicitTreeAut::Intersection(a, b, &pm);
			}
			check_product(ctx, v.name, lib::read(i), VA, VB, pm, wantProd);
			ctx.count("prefilled_product_maps");
		}
	}
	// --- the CLI flow with named states
	cli_flow(ctx, c, static_cast<int>((flavour / 8) % 3));
}
