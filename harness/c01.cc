// C01 — explicit tree-automata inclusion is exact under every algorithm selection
#include "../engine/ctx.hh"
#include "../engine/gen_ta.hh"
#include "../engine/lib_explicit.hh"
#include "incl_common.hh"

const char* const harness::ID = "C01";

void harness::run_case(const eng::Raw& raw, eng::Ctx& ctx)
{
	gen::Limits lim;
	lim.maxStates = ctx.tier() ? 7 : 5;
	lim.arity3 = true;
	lim.overload = true;
	lim.fanoutEvery = 6;
	//                          indep sup abl split leaf detB degen
	const std::vector<int> w = {4,    2,  4,  4,    1,   2,   1};
	gen::PairCase c = gen::decode_pair(raw, lim, w);
	// CHAIN flavour (1/96): two unary chains of 30..1540 states that differ (if at all) at the very bottom, so that every
	// algorithm has to walk the whole depth: recursion / emulated call stacks / work lists and their free lists reach
	// sizes that the small pairs never produce
	const bool chain = (c.header[6] % 96 == 95);
	if (chain) {
		static const int lens[] = {30, 200, 700, 1030, 1100, 1500};
		const int L = lens[c.header[5] % 6] + static_cast<int>(c.header[4] % 40);
		const uint32_t variant = c.header[3] % 4;
		auto mk = [&](bool isB) {
			ref::TA t;
			// variant 1: B starts from another leaf; variant 2: B is one level shorter; variant 3: B also accepts a second leaf
			t.add((isB && variant == 1) ? 1 /* b */ : 0 /* a */, {}, 0);
			if (isB && variant == 3) t.add(1, {}, 0);
			const int len = (isB && variant == 2) ? L - 1 : L;
			for (int i = 1; i <= len; ++i) t.add((gen::mix(c.header[2], static_cast<uint64_t>(i)) % 4 == 0) ? 5 /* h */ : 4 /* g */, {i - 1}, i);
			t.finals.insert(len);
			return t;
		};
		c.A = mk(false); c.B = mk(true);
		c.nA = c.A.max_state() + 1; c.nB = c.B.max_state() + 1;
		c.numA = gen::make_numbering(c.header[4], c.nA, false);
		c.numB = gen::make_numbering(c.header[5], c.nB, false);
		c.orderA = gen::shuffled(c.A.rules, c.header[7] / 2);
		c.orderB = gen::shuffled(c.B.rules, c.header[7] / 8);
		ctx.describe("chain flavour: unary chains of " + std::to_string(L) + " levels, variant " + std::to_string(variant) +
			" (0 equal, 1 other leaf, 2 B shorter, 3 B has an extra leaf), numbering modes " + std::to_string(c.numA.mode) + "/" + std::to_string(c.numB.mode));
		ctx.tag("chain:" + std::string(L > 1024 ? "deeper-than-1024" : "up-to-1024"));
	}
	else ctx.describe(gen::describe_pair(c));
	ctx.tag(std::string("strategy:") + (chain ? "chain" : gen::strategy_name(c.strategy)));

	ctx.small_case(c.A.states().size() <= 6 && c.B.states().size() <= 6 &&
		c.A.rules.size() <= 14 && c.B.rules.size() <= 14);

	ref::InclResult expect;
	if (!inclc::reference_verdict(ctx, c.A, c.B, expect)) return;
	ctx.tag(expect.verdict == ref::Tri::YES ? "verdict:included" : "verdict:not-included");
	{
		ref::TA ta = c.A.trim();
		bool deep = false;
		for (auto& r : ta.rules) if (!r.ch.empty()) deep = true;
		ctx.nontrivial(deep && !c.B.empty_lang());
		if (c.A.empty_lang()) ctx.tag("A-empty");
		if (c.B.empty_lang()) ctx.tag("B-empty");
		if (!deep && !c.A.empty_lang()) ctx.tag("A-leaves-only");
	}
	const bool want = (expect.verdict == ref::Tri::YES);

	VATA::ExplicitTreeAut a, b;
	{
		eng::LibSection ls(ctx, "build");
		if (c.header[7] & 64) { a = lib::load(c.A, c.orderA, c.numA); b = lib::load(c.B, c.orderB, c.numB); }
		else { a = lib::build(c.A, c.orderA, c.numA); b = lib::build(c.B, c.orderB, c.numB); }
	}
	inclc::relation_variant() = static_cast<int>((c.header[7] >> 8) % 3);
	if (inclc::relation_variant()) ctx.tag(inclc::relation_variant() == 1 ? "relation:copy-constructed" : "relation:copy-assigned");
	inclc::check_all_explicit(ctx, a, b, want, expect);
	// a pair of objects that SHARE their rule storage: a copy of A (rules only) with other final states; the verdict
	// must follow the values, in both directions (a quarter of the cases)
	if (c.header[7] % 4 == 1 && !chain) {
		const ref::TA VA = [&] { std::map<int,int> m; for (int q : c.A.states()) m[q] = static_cast<int>(c.numA(q)); return c.A.image(m); }();
		ref::TA VC;
		VC.rules = VA.rules;
		for (int q : VA.states()) if (gen::mix(c.header[6], static_cast<uint64_t>(q) + 11) % 2) VC.finals.insert(q);
		VATA::ExplicitTreeAut cpy;
		{
			eng::LibSection ls(ctx, "copy-with-own-finals");
			cpy = VATA::ExplicitTreeAut(a, true, false);
			for (int q : VC.finals) cpy.SetStateFinal(static_cast<size_t>(q));
		}
		ref::InclResult e1, e2;
		if (inclc::reference_verdict(ctx, VA, VC, e1) && inclc::reference_verdict(ctx, VC, VA, e2)) {
			ctx.tag("shared-storage-pair");
			inclc::check_all_explicit(ctx, a, cpy, e1.verdict == ref::Tri::YES, e1);
			inclc::check_all_explicit(ctx, cpy, a, e2.verdict == ref::Tri::YES, e2);
		}
	}
	// the converse question on the same pair, in the same child (doubles the verdicts per generated case)
	ref::InclResult expect2;
	if (!inclc::reference_verdict(ctx, c.B, c.A, expect2)) return;
	ctx.tag(expect2.verdict == ref::Tri::YES ? "converse:included" : "converse:not-included");
	inclc::check_all_explicit(ctx, b, a, expect2.verdict == ref::Tri::YES, expect2);
}
