// C01 — explicit tree-automata inclusion is exact under every algorithm selection
#include "../engine/ctx.hh"
#include "../engine/gen_ta.hh"
#include "../engine/lib_explicit.hh"
#include "incl_common.hh"

const char* const harness::ID = "C01";

void harness::run_case(const eng::Raw& raw, eng::Ctx& ctx)
{
	gen::Limits lim;
	lim.maxStates = ctx.tier() ? 7 : 5;
	lim.arity3 = true;
	//                          indep sup abl split leaf detB degen
	const std::vector<int> w = {4,    2,  4,  4,    1,   2,   1};
	gen::PairCase c = gen::decode_pair(raw, lim, w);
	ctx.describe(gen::describe_pair(c));
	ctx.tag(std::string("strategy:") + gen::strategy_name(c.strategy));

	ctx.small_case(c.A.states().size() <= 6 && c.B.states().size() <= 6 &&
		c.A.rules.size() <= 14 && c.B.rules.size() <= 14);

	ref::InclResult expect;
	if (!inclc::reference_verdict(ctx, c.A, c.B, expect)) return;
	ctx.tag(expect.verdict == ref::Tri::YES ? "verdict:included" : "verdict:not-included");
	{
		ref::TA ta = c.A.trim();
		bool deep = false;
		for (auto& r : ta.rules) if (!r.ch.empty()) deep = true;
		ctx.nontrivial(deep && !c.B.empty_lang());
		if (c.A.empty_lang()) ctx.tag("A-empty");
		if (c.B.empty_lang()) ctx.tag("B-empty");
		if (!deep && !c.A.empty_lang()) ctx.tag("A-leaves-only");
	}
	const bool want = (expect.verdict == ref::Tri::YES);

	VATA::ExplicitTreeAut a, b;
	{
		eng::LibSection ls(ctx, "build");
		if (c.header[7] & 64) { a = lib::load(c.A, c.orderA, c.numA); b = lib::load(c.B, c.orderB, c.numB); }
		else { a = lib::build(c.A, c.orderA, c.numA); b = lib::build(c.B, c.orderB, c.numB); }
	}
	inclc::relation_variant() = static_cast<int>((c.header[7] >> 8) % 3);
	if (inclc::relation_variant()) ctx.tag(inclc::relation_variant() == 1 ? "relation:copy-constructed" : "relation:copy-assigned");
	inclc::check_all_explicit(ctx, a, b, want, expect);
	// a pair of objects that SHARE their rule storage: a copy of A (rules only) with other final states; the verdict
	// must follow the values, in both directions (a quarter of the cases)
	if (c.header[7] % 4 == 1) {
		const ref::TA VA = [&] { std::map<int,int> m; for (int q : c.A.states()) m[q] = static_cast<int>(c.numA(q)); return c.A.image(m); }();
		ref::TA VC;
		VC.rules = VA.rules;
		for (int q : VA.states()) if (gen::mix(c.header[6], static_cast<uint64_t>(q) + 11) % 2) VC.finals.insert(q);
		VATA::ExplicitTreeAut cpy;
		{
			eng::LibSection ls(ctx, "copy-with-own-finals");
			cpy = VATA::ExplicitTreeAut(a, true, false);
			for (int q : VC.finals) cpy.SetStateFinal(static_cast<size_t>(q));
		}
		ref::InclResult e1, e2;
		if (inclc::reference_verdict(ctx, VA, VC, e1) && inclc::reference_verdict(ctx, VC, VA, e2)) {
			ctx.tag("shared-storage-pair");
			inclc::check_all_explicit(ctx, a, cpy, e1.verdict == ref::Tri::YES, e1);
			inclc::check_all_explicit(ctx, cpy, a, e2.verdict == ref::Tri::YES, e2);
		}
	}
	// the converse question on the same pair, in the same child (doubles the verdicts per generated case)
	ref::InclResult expect2;
	if (!inclc::reference_verdict(ctx, c.B, c.A, expect2)) return;
	ctx.tag(expect2.verdict == ref::Tri::YES ? "converse:included" : "converse:not-included");
	inclc::check_all_explicit(ctx, b, a, expect2.verdict == ref::Tri::YES, expect2);
}
