// Helpers shared by the explicit tree automata harnesses.
#pragma once
#include "../engine/ctx.hh"
#include "../engine/gen_ta.hh"
#include "../engine/lib_explicit.hh"

namespace tc {

inline size_t cap(eng::Ctx& ctx) { return ctx.tier() ? 300000 : 60000; }

// language equality against the reference; UNKNOWN is inconclusive, never a failure.
// returns true when equal was established
inline bool expect_equiv(eng::Ctx& ctx, const std::string& sig, const ref::TA& got, const ref::TA& want,
	const std::string& what, size_t capOverride = 0)
{
	const size_t cp = capOverride ? capOverride : cap(ctx);
	ref::InclResult r1 = ref::included(got, want, cp);
	if (r1.verdict == ref::Tri::NO) {
		ctx.fail(sig + ":extra-tree", what + ": accepts " + ref::show(r1.witness) + " which it must not; got " + got.str());
		return false;
	}
	ref::InclResult r2 = ref::included(want, got, cp);
	if (r2.verdict == ref::Tri::NO) {
		ctx.fail(sig + ":lost-tree", what + ": rejects " + ref::show(r2.witness) + " which it must accept; got " + got.str());
		return false;
	}
	if (r1.verdict == ref::Tri::UNKNOWN || r2.verdict == ref::Tri::UNKNOWN) {
		ctx.inconclusive("oracle-cap:" + sig);
		return false;
	}
	ctx.count("language_comparisons");
	return true;
}

// the operand must read back exactly as it was built
inline void expect_unchanged(eng::Ctx& ctx, const std::string& sig, const VATA::ExplicitTreeAut& aut,
	const ref::TA& before)
{
	ref::TA now = lib::read(aut);
	if (now != before)
		ctx.fail(sig + ":operand-changed", "operand changed from " + before.str() + " to " + now.str());
}

// model of the automaton as the library sees it (library state numbers)
inline ref::TA lib_view(const ref::TA& A, const gen::Numbering& num)
{
	std::map<int,int> m;
	for (int q : A.states()) m[q] = static_cast<int>(num(q));
	return A.image(m);
}

inline bool has_deep_run(const ref::TA& A)
{
	ref::TA t = A.trim();
	for (auto& r : t.rules) if (!r.ch.empty()) return true;
	return false;
}

} // namespace tc
