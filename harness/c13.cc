// C13 (a, b) — Timbuk text round-trips: descriptions, and all four encodings
#include "../engine/ctx.hh"
#include "../engine/dump_reader.hh"
#include "../engine/gen_ta.hh"

#include <vata/bdd_bu_tree_aut.hh>
#include <vata/bdd_td_tree_aut.hh>
#include <vata/explicit_finite_aut.hh>
#include <vata/explicit_tree_aut.hh>
#include <vata/parsing/timbuk_parser.hh>
#include <vata/serialization/timbuk_serializer.hh>

const char* const harness::ID = "C13";

using VATA::Util::AutDescription;

namespace {

// names without whitespace and the reserved ( ) , : ; never containing "->" (printable ASCII, or any other non-blank byte)
std::string make_name(uint32_t a, uint32_t b, bool plain)
{
	static const std::string allowed = [] {
		std::string s;
		for (char c = 0x21; c < 0x7f; ++c) if (c != '(' && c != ')' && c != ',' && c != ':') s += c;
		return s;
	}();
	static const std::string simple = "abcdefghijklmnopqrstuvwxyz0123456789_";
	// WIDE names (a third of the non-plain ones): every byte that is neither white space, NUL nor reserved punctuation may
	// occur in a name - bytes >= 0x80 (UTF-8 letters) and the control characters outside \t \n \v \f \r, also at the
	// first and the last position; half of the positions stay ASCII
	static const std::string wide = [] {
		std::string s;
		for (int c = 0x80; c <= 0xff; ++c) s += static_cast<char>(c);
		for (int c = 0x01; c <= 0x08; ++c) s += static_cast<char>(c);
		for (int c = 0x0e; c <= 0x1f; ++c) s += static_cast<char>(c);
		s += static_cast<char>(0x7f);
		return s + allowed + allowed.substr(0, 64);
	}();
	const std::string& cs = plain ? simple : ((a / 8) % 3 == 0 ? wide : allowed);
	uint64_t v = gen::mix(a, b);
	size_t len = 1 + v % 6;
	std::string s;
	for (size_t i = 0; i < len; ++i) {
		v = gen::mix(v, i);
		char c = cs[v % cs.size()];
		if (c == '>' && !s.empty() && s.back() == '-') c = '<';
		s += c;
	}
	return s;
}

struct Gen {
	std::vector<std::string> states, syms;
	AutDescription desc;
	bool punct = false, hasNullary = false, hasDeep = false;
};

// header: [0] flavour [1] #states [2] #symbols [3] name seed [4] automaton name
Gen make_desc(const eng::Raw& raw, bool plainNames, bool faShape, bool poolSymbols)
{
	Gen g;
	const eng::Rec h = raw.empty() ? eng::Rec{} : raw[0];
	const size_t ns = 1 + h[1] % 5, ny = 1 + h[2] % (poolSymbols ? 8 : 4);
	std::set<std::string> used;
	for (size_t i = 0; i < ns; ++i) {
		std::string n = make_name(h[3], static_cast<uint32_t>(i), plainNames);
		while (!used.insert(n).second) n += "q";
		g.states.push_back(n);
		for (char c : n) if (!isalnum(static_cast<unsigned char>(c)) && c != '_') g.punct = true;
	}
	used.clear();
	// BDD encodings: a fixed pool, five nullary symbols first (symbols of one arity whose codes differ in the low bits only)
	static const char* pool[] = {"a", "b", "c", "d", "e", "g", "f", "k"};
	static const size_t poolArity[] = {0, 0, 0, 0, 0, 1, 2, 2};
	for (size_t i = 0; i < ny; ++i) {
		std::string n = poolSymbols ? std::string(pool[i]) + (faShape ? "" : "") : make_name(h[3] + 77, static_cast<uint32_t>(i), plainNames);
		while (!used.insert(n).second) n += "s";
		g.syms.push_back(n);
	}
	g.desc.name = (h[4] % 4 == 0) ? "" : make_name(h[4], 1, true);
	for (size_t i = 1; i < raw.size(); ++i) {
		const eng::Rec& r = raw[i];
		if (r[0] % 8 >= 6) { g.desc.finalStates.insert(g.states[r[2] % ns]); continue; }
		AutDescription::StateTuple ch;
		// one arity per symbol: symbol index i has arity i % 3 (FA shape: 0 for the first symbol, 1 otherwise)
		const size_t si = r[1] % ny;
		size_t ar = faShape ? (si == 0 ? 0 : 1) : (poolSymbols ? poolArity[si] : si % 3);
		for (size_t k = 0; k < ar; ++k) ch.push_back(g.states[r[3 + k] % ns]);
		g.desc.transitions.insert(AutDescription::Transition(ch, g.syms[si], g.states[r[2] % ns]));
		// a symbol may be declared without a rank (the parser stores -1 for "Ops g h"): a quarter of them are
		g.desc.symbols.insert(std::make_pair(g.syms[si], (!faShape && !poolSymbols && (gen::mix(h[4], si) % 4 == 0)) ? -1 : static_cast<int>(ar)));
		if (ar == 0) g.hasNullary = true; else g.hasDeep = true;
	}
	for (auto& s : g.states) g.desc.states.insert(s);
	if (h[0] % 7 == 3) g.desc.finalStates.clear();            // empty sections
	if (h[0] % 7 == 4) { g.desc.symbols.clear(); g.desc.states.clear(); }
	return g;
}

// hand-written text form of the same description: nullary rules with parentheses, odd spacing, sections in another order
std::string alt_text(const AutDescription& d, uint32_t style)
{
	std::ostringstream os;
	// every isspace() character separates header tokens: space, tab, vertical tab, form feed, carriage return
	static const char* seps[] = {" ", "  ", "\t", " \t ", "\v", "\f", " \r ", "\t\v"};
	const std::string sep = seps[(style / 4096) % 8];
	auto ops = [&] { os << "Ops"; for (auto& s : d.symbols) { os << sep << s.first; if (s.second >= 0) os << ":" << s.second; } os << "\n"; };
	auto aut = [&] { os << "Automaton" << sep << (d.name.empty() ? "anonymous" : d.name) << "\n"; };
	auto sts = [&] { os << "States"; for (auto& s : d.states) os << sep << s << ((style / 2) % 2 ? ":0" : ""); os << "\n"; };
	auto fin = [&] { os << "Final" << ((style / 32768) % 2 ? sep : std::string(" ")) << "States"; for (auto& s : d.finalStates) os << sep << s; os << "  \n"; };
	switch ((style / 4) % 3) {
		case 0: ops(); aut(); sts(); fin(); break;
		case 1: aut(); fin(); os << "\n"; sts(); ops(); break;
		default: fin(); aut(); break;                                  // no Ops / States section at all
	}
	os << "Transitions\n";
	for (auto& t : d.transitions) {
		os << ((style / 16) % 2 ? "  " : "") << t.second;
		// white space the grammar allows inside a left-hand side: between the symbol and '(', after '(', around ',' and
		// before ')' - also when nothing stands between the parentheses ("a( ) -> q" is a nullary rule)
		static const char* inner[] = {"", "", " ", "\t", "  ", " \t"};
		const std::string in1 = inner[(style >> 16) % 6], in2 = inner[(style >> 19) % 6], pre = inner[(style >> 22) % 6];
		if (!t.first.empty() || (style / 32) % 2) {
			os << pre << "(" << in1;
			for (size_t i = 0; i < t.first.size(); ++i) os << (i ? ((style / 64) % 2 ? " , " : ",") : "") << t.first[i];
			os << in2 << ")";
		}
		static const char* arrows[] = {" -> ", "  ->  ", "->", "\t->\t", " ->", "-> "};
		os << arrows[((style / 128) % 2) + 2 * ((style >> 25) % 3)] << t.third << ((style >> 27) % 3 == 0 ? " " : "") << "\n";
		if ((style / 256) % 2) os << "\n";
	}
	std::string out = os.str();
	if ((style / 512) % 2 && !out.empty() && out.back() == '\n') out.pop_back();       // no newline at the end of the text
	if ((style / 1024) % 2) {                                                             // CR LF line ends
		std::string crlf;
		for (char c : out) { if (c == '\n') crlf += '\r'; crlf += c; }
		out = crlf;
	}
	if ((style / 2048) % 2) out = "\n\n" + out;                                          // leading blank lines
	return out;
}

struct Named { std::set<std::string> finals; std::set<std::tuple<std::string, std::vector<std::string>, std::string>> trans; };
Named read_named(const std::string& text)
{
	dump::Desc d = dump::parse(text);
	Named n;
	n.finals.insert(d.finals.begin(), d.finals.end());
	for (auto& t : d.trans) n.trans.insert(std::make_tuple(t.sym, t.ch, t.par));
	return n;
}

template <class Aut>
void encoding_roundtrip(eng::Ctx& ctx, const std::string& enc, const std::string& text, bool faStarts)
{
	VATA::Parsing::TimbukParser parser;
	VATA::Serialization::TimbukSerializer ser;
	std::string d1, d2;
	try {
		eng::LibSection ls(ctx, "roundtrip:" + enc);
		Aut a;
		VATA::AutBase::StateDict dict1;
		a.LoadFromString(parser, text, dict1);
		d1 = a.DumpToString(ser, dict1);
		Aut b;
		VATA::AutBase::StateDict dict2;
		b.LoadFromString(parser, d1, dict2);
		d2 = b.DumpToString(ser, dict2);
	}
	catch (const std::exception& e) {
		ctx.fail("roundtrip:" + enc + ":exception", std::string("load/dump/load threw: ") + e.what());
		return;
	}
	Named n1 = read_named(d1), n2 = read_named(d2);
	if (n1.finals != n2.finals || n1.trans != n2.trans)
		ctx.fail("roundtrip:" + enc + ":differs", "dump of the re-loaded automaton differs from the first dump:\n" + d1 + "---\n" + d2);
	// the first dump must also carry exactly what was loaded (names included)
	Named n0 = read_named(text);
	bool same = (n0.finals == n1.finals);
	if (!faStarts) same = same && (n0.trans == n1.trans);
	else {
		// FA: a start state with several start symbols is dumped with one of them
		std::set<std::tuple<std::vector<std::string>, std::string>> e0, e1;
		for (auto& t : n0.trans) e0.insert(std::make_tuple(std::get<1>(t), std::get<2>(t)));
		for (auto& t : n1.trans) e1.insert(std::make_tuple(std::get<1>(t), std::get<2>(t)));
		std::set<decltype(n0.trans)::value_type> u0, u1;
		for (auto& t : n0.trans) if (!std::get<1>(t).empty()) u0.insert(t);
		for (auto& t : n1.trans) if (!std::get<1>(t).empty()) u1.insert(t);
		same = same && (u0 == u1);
		std::set<std::string> s0, s1;
		for (auto& t : n0.trans) if (std::get<1>(t).empty()) s0.insert(std::get<2>(t));
		for (auto& t : n1.trans) if (std::get<1>(t).empty()) s1.insert(std::get<2>(t));
		same = same && (s0 == s1);
	}
	if (!same) ctx.fail("roundtrip:" + enc + ":first-dump-differs", "dump differs from the loaded text:\n" + text + "---\n" + d1);
	ctx.count("encoding_roundtrips");
}

// BDD encodings: the "symbolic" dump/load mode (cli: -o symbolic=yes).  Symbols are written as bit strings with
// don't-cares; loading that text in symbolic mode and dumping it in the ordinary mode must give back the named rules.
template <class Aut>
void symbolic_roundtrip(eng::Ctx& ctx, const std::string& enc, const std::string& text)
{
	VATA::Parsing::TimbukParser parser;
	VATA::Serialization::TimbukSerializer ser;
	std::string sym1, sym2, back;
	try {
		eng::LibSection ls(ctx, "roundtrip-symbolic:" + enc);
		Aut a;
		VATA::AutBase::StateDict d1;
		a.LoadFromString(parser, text, d1);
		sym1 = a.DumpToString(ser, d1, "symbolic");
		Aut b;
		VATA::AutBase::StateDict d2;
		b.LoadFromString(parser, sym1, d2, "symbolic");
		sym2 = b.DumpToString(ser, d2, "symbolic");
		back = b.DumpToString(ser, d2);
	}
	catch (const std::exception& e) { ctx.fail("roundtrip-symbolic:" + enc + ":exception", std::string("symbolic dump/load threw: ") + e.what()); return; }
	Named n0 = read_named(text), nb = read_named(back), s1 = read_named(sym1), s2 = read_named(sym2);
	if (s1.finals != s2.finals || s1.trans != s2.trans)
		ctx.fail("roundtrip-symbolic:" + enc + ":differs", "second symbolic dump differs from the first:\n" + sym1 + "---\n" + sym2);
	if (n0.finals != nb.finals || n0.trans != nb.trans)
		ctx.fail("roundtrip-symbolic:" + enc + ":rules-lost-or-invented", "text -> symbolic dump -> symbolic load -> ordinary dump differs from the text:\n" + text + "--- symbolic\n" + sym1 + "--- back\n" + back);
	ctx.count("symbolic_roundtrips");
}

} // namespace

void harness::run_case(const eng::Raw& raw, eng::Ctx& ctx)
{
	const eng::Rec h = raw.empty() ? eng::Rec{} : raw[0];
	VATA::Parsing::TimbukParser parser;
	VATA::Serialization::TimbukSerializer ser;
	ctx.small_case(true);

	// ---------- (a) description round trip
	Gen g = make_desc(raw, false, false, false);
	const std::string altStyle = alt_text(g.desc, h[5] | (h[6] << 16));
	ctx.describe(ser.Serialize(g.desc) + "--- alternative text\n" + altStyle);
	ctx.nontrivial(g.hasNullary && g.hasDeep && g.punct);
	{
		AutDescription back;
		std::string text;
		try {
			eng::LibSection ls(ctx, "desc:serialize-parse");
			text = ser.Serialize(g.desc);
			back = parser.ParseString(text);
		}
		catch (const std::exception& e) { ctx.fail("desc:roundtrip:exception", std::string("parsing a serialisation threw: ") + e.what()); return; }
		if (!(back == g.desc)) ctx.fail("desc:roundtrip:differs", "ParseString(Serialize(d)) != d for\n" + text + "parsed back as\n" + back.ToString());
		else {
			// serialising again must be a fixpoint on everything the relaxed equality covers
			AutDescription back2;
			{ eng::LibSection ls(ctx, "desc:serialize-parse-2"); back2 = parser.ParseString(ser.Serialize(back)); }
			if (!(back2 == g.desc)) ctx.fail("desc:roundtrip:second-pass-differs", "second serialise/parse pass differs");
		}
		ctx.count("description_roundtrips");
		// the same description in another textual form (nullary rules with parentheses, empty / missing sections, spacing)
		try {
			AutDescription alt;
			{ eng::LibSection ls(ctx, "desc:parse-alternative-text"); alt = parser.ParseString(altStyle); }
			if (!(alt == g.desc)) ctx.fail("desc:alt-text:differs", "alternative text parsed to a different description:\n" + altStyle + "parsed as\n" + alt.ToString());
		}
		catch (const std::exception& e) { ctx.fail("desc:alt-text:exception", std::string("well-formed text rejected: ") + e.what() + "\n" + altStyle); }
	}

	// ---------- (b) encoding round trips (names with punctuation for states; ranked symbols)
	{
		Gen t = make_desc(raw, (h[6] % 4) == 0, false, false);
		if (!t.desc.transitions.empty() || !t.desc.finalStates.empty())
			encoding_roundtrip<VATA::ExplicitTreeAut>(ctx, "explicit-tree", ser.Serialize(t.desc), false);
		Gen b = make_desc(raw, (h[6] % 4) == 0, false, true);       // BDD: symbol names from a fixed pool (16-bit symbol space)
		encoding_roundtrip<VATA::BDDBottomUpTreeAut>(ctx, "bdd-bu", ser.Serialize(b.desc), false);
		encoding_roundtrip<VATA::BDDTopDownTreeAut>(ctx, "bdd-td", ser.Serialize(b.desc), false);
		symbolic_roundtrip<VATA::BDDBottomUpTreeAut>(ctx, "bdd-bu", ser.Serialize(b.desc));
		// (the top-down encoding has no symbolic dump: dumpToAutDescSymbolic throws NotImplemented)
		Gen f = make_desc(raw, (h[6] % 4) == 0, true, false);
		// a start state with a second start symbol (legal input)
		if (h[7] % 3 == 0 && !f.states.empty()) {
			f.desc.transitions.insert(AutDescription::Transition({}, "x1", f.states[0]));
			f.desc.transitions.insert(AutDescription::Transition({}, "x2", f.states[0]));
		}
		encoding_roundtrip<VATA::ExplicitFiniteAut>(ctx, "explicit-fa", ser.Serialize(f.desc), true);
	}
}
