// C16 — LTS simulation engine returns the greatest simulation inside a given preorder
#include "../engine/ctx.hh"
#include "../engine/gen_ta.hh"
#include <vata/explicit_lts.hh>
#include <memory>

const char* const harness::ID = "C16";

void harness::run_case(const eng::Raw& raw, eng::Ctx& ctx)
{
	const eng::Rec h = raw.empty() ? eng::Rec{} : raw[0];
	const size_t maxN = ctx.tier() ? 14 : 8;
	// 1/24 of the cases are LARGE (65..220 states, chain/tree shaped with a few generated extra edges): internal tables
	// of the engine are sized in words of 64 and relation rows in powers of two from 16
	const bool large = (h[7] % 24 == 23);
	size_t n = large ? 65 + h[0] % 156 : 1 + h[0] % maxN;
	const size_t nl = 1 + h[1] % 4;
	const bool withPartition = (h[2] % 3) != 0;
	const bool allowDuplicateEdges = (h[6] % 8 == 0);
	// how the ExplicitLTS object that is asked comes into being (it is a value, and init() refreshes its index):
	// 0 built in one go; 1 a copy of an initialised object whose original is gone; 2 a copy taken before init();
	// 3 built in two phases around a first init() (later edges only use labels the first phase knew);
	// 4 as 3, but the object starts with 0 states and grows with the edges (so the state count is the largest index + 1)
	// 5 an object that held ANOTHER system before (at least as many states, every label), was initialised (and possibly
	//   asked), then clear()ed and filled with this one: after clear() it behaves like a fresh ExplicitLTS(0)
	const unsigned protocol = (h[6] / 8) % 8 < 6 ? (h[6] / 8) % 8 : 0;

	// edges
	std::vector<std::array<size_t,3>> edges;
	std::set<std::array<size_t,3>> edgeSet;
	if (large) {
		// backbone: state i+1 -> state (i+1)/k (k = 1: chain, k = 2: binary tree) with a label depending on i
		const size_t k = 1 + h[4] % 2;
		for (size_t i = 0; i + 1 < n; ++i) {
			std::array<size_t,3> e{i + 1, (h[5] % 3 == 0) ? 0 : i % nl, k == 1 ? i : (i + 1) / 2};
			if (edgeSet.insert(e).second) edges.push_back(e);
		}
	}
	for (size_t i = 1; i < raw.size(); ++i) {
		const eng::Rec& r = raw[i];
		if (r[0] % 4 == 3) continue;      // records reserved for the partition / preorder
		std::array<size_t,3> e{(r[1] + (large ? r[4] * 7 : 0)) % n, r[2] % nl, (r[3] + (large ? r[5] * 11 : 0)) % n};
		if (edgeSet.insert(e).second || allowDuplicateEdges) edges.push_back(e);
	}
	if ((protocol == 4 || protocol == 5) && !edges.empty()) {
		size_t top = 0;
		for (auto& e : edges) top = std::max(top, std::max(e[0], e[2]));
		n = top + 1;
	}
	const size_t outSize = (h[3] % 3 == 0) ? 1 + (h[3] / 3) % n : n;
	// two-phase construction: the first edge carries the largest label, the split point is generated
	size_t phase1 = edges.size();
	if ((protocol == 3 || protocol == 4) && !edges.empty()) {
		size_t best = 0;
		for (size_t i = 0; i < edges.size(); ++i) if (edges[i][1] > edges[best][1]) best = i;
		std::swap(edges[0], edges[best]);
		phase1 = 1 + (h[5] / 16) % edges.size();
	}
	// partition into non-empty blocks + preorder on blocks (reflexive transitive closure of generated pairs)
	std::vector<size_t> blockOf(n, 0);
	size_t nb = 1;
	std::vector<std::vector<bool>> pre;
	if (withPartition) {
		nb = 1 + h[4] % std::min<size_t>(n, 4);
		for (size_t q = 0; q < n; ++q) blockOf[q] = (q < nb) ? q : gen::mix(h[5], q) % nb;   // every block non-empty
	}
	pre.assign(nb, std::vector<bool>(nb, false));
	for (size_t b = 0; b < nb; ++b) pre[b][b] = true;
	if (withPartition) {
		for (size_t i = 1; i < raw.size(); ++i) {
			const eng::Rec& r = raw[i];
			if (r[0] % 4 != 3) continue;
			pre[r[1] % nb][r[2] % nb] = true;
		}
		for (size_t k = 0; k < nb; ++k) for (size_t i = 0; i < nb; ++i) for (size_t j = 0; j < nb; ++j)
			if (pre[i][k] && pre[k][j]) pre[i][j] = true;
	}
	{
		std::ostringstream d;
		static const char* const protoName[] = {"built in one go", "copy of an initialised object, original destroyed", "copy taken before init()",
			"two phases around a first init()", "two phases, object grows from 0 states",
			"re-used after clear(): held the reversed system on more states before"};
		d << "states " << n << " labels " << nl << " output-size " << outSize << (allowDuplicateEdges ? " (duplicate edges kept)" : "") <<
			"\nobject: " << protoName[protocol] << ((protocol == 3 || protocol == 4) ? " (first " + std::to_string(phase1) + " edges before it)" : std::string()) << "\nedges:";
		size_t shown = 0;
		for (auto& e : edges) { if (++shown > 60) { d << " ... (" << edges.size() << " edges)"; break; } d << " " << e[0] << "-" << e[1] << "->" << e[2]; }
		d << "\n";
		if (withPartition) {
			d << "block of state:";
			for (size_t q = 0; q < n; ++q) d << " " << blockOf[q];
			d << "\nblock preorder:";
			for (size_t i = 0; i < nb; ++i) for (size_t j = 0; j < nb; ++j) if (pre[i][j] && i != j) d << " " << i << "<=" << j;
			d << "\n";
		} else d << "no partition (single block)\n";
		ctx.describe(d.str());
	}
	ctx.small_case(true);

	// reference: naive greatest fixpoint inside {(q,r) | block(q) <= block(r)}
	std::vector<std::vector<bool>> sim(n, std::vector<bool>(n, false));
	for (size_t q = 0; q < n; ++q) for (size_t r = 0; r < n; ++r) sim[q][r] = pre[blockOf[q]][blockOf[r]];
	std::vector<std::vector<std::pair<size_t,size_t>>> out(n);      // state -> (label, target)
	for (auto& e : edges) out[e[0]].push_back({e[1], e[2]});
	bool changed = true;
	bool refined = false;
	while (changed) {
		changed = false;
		for (size_t q = 0; q < n; ++q) for (size_t r = 0; r < n; ++r) {
			if (!sim[q][r]) continue;
			bool ok = true;
			for (auto& e : out[q]) {
				bool answered = false;
				for (auto& f : out[r]) if (f.first == e.first && sim[e.second][f.second]) { answered = true; break; }
				if (!answered) { ok = false; break; }
			}
			if (!ok) { sim[q][r] = false; changed = true; refined = true; }
		}
	}
	size_t cnt = 0;
	for (size_t q = 0; q < n; ++q) for (size_t r = 0; r < n; ++r) if (sim[q][r]) ++cnt;
	ctx.nontrivial(cnt > n && cnt < n * n && refined);
	if (large) ctx.tag("large:65-220-states");
	if (protocol == 1 || protocol == 2) ctx.tag("object:copy");
	if (protocol == 3 || protocol == 4) ctx.tag("object:two-phase");
	if (protocol == 5) ctx.tag("object:reused-after-clear");
	if (withPartition) ctx.tag("with-partition");
	if (outSize < n) ctx.tag("restricted-output");
	if (refined) ctx.tag("needed-refinement");

	VATA::Util::BinaryRelation result;
	{
		eng::LibSection ls(ctx, "lts:computeSimulation");
		std::unique_ptr<VATA::ExplicitLTS> obj(new VATA::ExplicitLTS(((protocol == 4 || protocol == 5) && !edges.empty()) ? 0 : n));
		if (protocol == 5 && !edges.empty()) {
			const size_t n1 = n + h[2] % 3;
			for (auto& e : edges) obj->addTransition(e[2], e[1], e[0]);
			obj->addTransition(n1 - 1, nl - 1, 0);
			obj->init();
			if (h[5] % 2) (void)obj->computeSimulation();
			obj->clear();
		}
		for (size_t i = 0; i < phase1; ++i) obj->addTransition(edges[i][0], edges[i][1], edges[i][2]);
		if (protocol == 2) { std::unique_ptr<VATA::ExplicitLTS> cp(new VATA::ExplicitLTS(*obj)); obj = std::move(cp); }
		obj->init();
		if (protocol == 3 || protocol == 4) {
			if (h[5] % 2) (void)obj->computeSimulation();      // the object has been used before it is extended
			for (size_t i = phase1; i < edges.size(); ++i) obj->addTransition(edges[i][0], edges[i][1], edges[i][2]);
			obj->init();
		}
		if (protocol == 1) { std::unique_ptr<VATA::ExplicitLTS> cp(new VATA::ExplicitLTS(*obj)); obj = std::move(cp); }
		VATA::ExplicitLTS& lts = *obj;
		if (lts.states() != n) { ctx.fail("lts:states", "the object reports " + std::to_string(lts.states()) + " states, built for " + std::to_string(n)); return; }
		if (!withPartition) {
			result = (outSize == n && h[7] % 2) ? lts.computeSimulation() : lts.computeSimulation(outSize);
		} else {
			std::vector<std::vector<size_t>> partition(nb);
			for (size_t q = 0; q < n; ++q) partition[blockOf[q]].push_back(q);
			VATA::Util::BinaryRelation rel(nb, false);
			for (size_t i = 0; i < nb; ++i) for (size_t j = 0; j < nb; ++j) rel.set(i, j, pre[i][j]);
			result = lts.computeSimulation(partition, rel, outSize);
		}
	}
	if (result.size() != outSize) {
		ctx.fail("lts:size", "result has size " + std::to_string(result.size()) + ", requested " + std::to_string(outSize));
		return;
	}
	std::string extra, missing;
	for (size_t q = 0; q < outSize; ++q) for (size_t r = 0; r < outSize; ++r) {
		const bool got = result.get(q, r);
		if (got && !sim[q][r] && extra.size() < 200) extra += "(" + std::to_string(q) + "," + std::to_string(r) + ")";
		if (!got && sim[q][r] && missing.size() < 200) missing += "(" + std::to_string(q) + "," + std::to_string(r) + ")";
	}
	ctx.count("relations_compared");
	if (!extra.empty()) ctx.fail("lts:too-big", "computed relation contains " + extra + " outside the greatest simulation");
	if (!missing.empty()) ctx.fail("lts:too-small", "computed relation lacks " + missing + " of the greatest simulation");
}
