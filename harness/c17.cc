// C17 — MTBDD operations are pointwise correct and representations are canonical
#include "mtbdd_common.hh"

const char* const harness::ID = "C17";

template <class C>
static void run(const eng::Raw& raw, eng::Ctx& ctx)
{
	mt::Ops<C> o(ctx, false);
	for (size_t i = 1; i < raw.size() && !o.failed; ++i) o.run_step(raw[i]);
	ctx.nontrivial(o.sharedApply && o.threeLeaves);
	for (auto& s : o.ops) ctx.tag("op:" + s);
	ctx.tag(std::string("leaf-type:") + C::name());
	ctx.count("steps", o.step);
	eng::LibSection ls(ctx, "mtbdd:destroy-all");
	o.pool.clear();
}

void harness::run_case(const eng::Raw& raw, eng::Ctx& ctx)
{
	const eng::Rec h = raw.empty() ? eng::Rec{} : raw[0];
	const bool sets = (h[0] % 3 == 2);
	std::ostringstream d;
	d << "leaf type " << (sets ? mt::SetCodec::name() : mt::IntCodec::name()) << "; steps (op,args):";
	for (size_t i = 1; i < raw.size(); ++i) d << " " << raw[i][0] % 16 << "(" << raw[i][1] << "," << raw[i][2] << "," << raw[i][3] << "," << raw[i][4] << ")";
	ctx.describe(d.str());
	ctx.small_case(true);
	if (sets) run<mt::SetCodec>(raw, ctx); else run<mt::IntCodec>(raw, ctx);
}
