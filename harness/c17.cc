// C17 — MTBDD operations are pointwise correct and representations are canonical
#include "mtbdd_common.hh"

const char* const harness::ID = "C17";

template <class C>
static void run(const eng::Raw& raw, eng::Ctx& ctx)
{
	mt::Ops<C> o(ctx, false);
	o.crowdMode = (!raw.empty() && raw[0][2] % 16 == 0);
	for (size_t i = 1; i < raw.size() && !o.failed; ++i) o.run_step(raw[i]);
	ctx.nontrivial(o.sharedApply && o.threeLeaves);
	for (auto& s : o.ops) ctx.tag("op:" + s);
	ctx.tag(std::string("leaf-type:") + C::name());
	ctx.count("steps", o.step);
	if (o.crowdPeak) ctx.tag(o.crowdPeak > 65536 ? "crowd:more-than-65536-references" : "crowd:up-to-65536-references");
	eng::LibSection ls(ctx, "mtbdd:destroy-all");
	if (!raw.empty() && raw[0][1] % 2) o.release_crowd();
	o.pool.clear();
	o.release_crowd();
}

void harness::run_case(const eng::Raw& raw, eng::Ctx& ctx)
{
	const eng::Rec h = raw.empty() ? eng::Rec{} : raw[0];
	const bool sets = (h[0] % 3 == 2);
	std::ostringstream d;
	d << "leaf type " << (sets ? mt::SetCodec::name() : mt::IntCodec::name()) << "; steps (op,args):";
	for (size_t i = 1; i < raw.size(); ++i) d << " " << raw[i][0] % 16 << "(" << raw[i][1] << "," << raw[i][2] << "," << raw[i][3] << "," << raw[i][4] << ")";
	ctx.describe(d.str());
	ctx.small_case(true);
	if (sets) run<mt::SetCodec>(raw, ctx); else run<mt::IntCodec>(raw, ctx);
}
