// C07 — inclusion on BDD-encoded (semi-symbolic) tree automata is exact
#include "../engine/ctx.hh"
#include "../engine/lib_bdd.hh"
#include "incl_common.hh"

const char* const harness::ID = "C07";

using VATA::BDDBottomUpTreeAut;
using VATA::BDDTopDownTreeAut;
using VATA::InclParam;

namespace {

InclParam from_word(unsigned w)
{
	InclParam ip;
	ip.SetAlgorithm((w & 1) ? InclParam::e_algorithm::congruences : InclParam::e_algorithm::antichains);
	ip.SetDirection((w & 2) ? InclParam::e_direction::downward : InclParam::e_direction::upward);
	ip.SetUseDownwardCacheImpl(w & 4);
	ip.SetUseRecursion(w & 8);
	ip.SetUseSimulation(w & 16);
	ip.SetSearchOrder((w & 32) ? InclParam::e_search_order::breadth : InclParam::e_search_order::depth);
	ip.SetEquivalence(w & 64);
	return ip;
}

void judge(eng::Ctx& ctx, const std::string& what, bool got, bool want, const ref::InclResult& expect)
{
	ctx.count("verdicts");
	if (got == want) return;
	ctx.fail("bdd-incl:" + what + (got ? ":false-positive" : ":false-negative"),
		what + " answered " + (got ? "included" : "not included") + ", reference says " +
		(want ? "included" : ("not included, witness " + ref::show(expect.witness))));
}

} // namespace

static void check_pair(eng::Ctx& ctx, const gen::PairCase& c, bool first)
{
	ref::InclResult expect;
	if (!inclc::reference_verdict(ctx, c.A, c.B, expect)) return;
	const bool want = (expect.verdict == ref::Tri::YES);
	ctx.tag(first ? (want ? "verdict:included" : "verdict:not-included") : (want ? "converse:included" : "converse:not-included"));
	{
		ref::TA ta = c.A.trim();
		bool deep = false, shaped = false;
		for (auto& r : ta.rules) {
			if (!r.ch.empty()) deep = true;
			if (r.ch.size() >= 2) {
				int multi = 0;
				for (int ch : r.ch) { auto it = expect.macros_per_state.find(ch); if (it != expect.macros_per_state.end() && it->second >= 2) ++multi; }
				if (multi >= 2) shaped = true;
			}
		}
		if (first) ctx.nontrivial(deep && !c.B.empty_lang());
		if (shaped) ctx.tag(first ? "two-children-with-several-macrostates" : "converse:two-children-with-several-macrostates");
	}

	const VATA::SimParam spDown = [] { VATA::SimParam sp; sp.SetRelation(VATA::SimParam::e_sim_relation::TA_DOWNWARD); return sp; }();

	// ---------------- bottom-up encoding
	{
		BDDBottomUpTreeAut a, b;
		{
			eng::LibSection ls(ctx, "bdd-bu:load");
			a = libbdd::load<BDDBottomUpTreeAut>(c.A, c.orderA, c.numA);
			b = libbdd::load<BDDBottomUpTreeAut>(c.B, c.orderB, c.numB);
		}
		// upward, no simulation: CLI protocol and unprepared operands
		try {
			bool got;
			{
				eng::LibSection ls(ctx, "bdd-bu:up:nosim");
				BDDBottomUpTreeAut s(a), g(b);
				VATA::AutBase::SanitizeAutsForInclusion(s, g);
				got = BDDBottomUpTreeAut::CheckInclusion(s, g, from_word(0));
			}
			judge(ctx, "bu:up:nosim", got, want, expect);
			{
				eng::LibSection ls(ctx, "bdd-bu:up:nosim:direct");
				got = BDDBottomUpTreeAut::CheckInclusion(a, b, from_word(0));
			}
			judge(ctx, "bu:up:nosim:direct", got, want, expect);
			{
				eng::LibSection ls(ctx, "bdd-bu:default");
				got = BDDBottomUpTreeAut::CheckInclusion(a, b);
			}
			judge(ctx, "bu:default", got, want, expect);
		}
		catch (const std::exception& e) { ctx.fail("bdd-incl:bu:up:nosim:exception", e.what()); }
		// downward with simulation (the dispatcher prepares everything itself); the CLI
		// additionally computes a downward simulation on the union beforehand
		try {
			bool got;
			{
				eng::LibSection ls(ctx, "bdd-bu:down-rec:sim");
				BDDBottomUpTreeAut s(a), g(b);
				VATA::AutBase::StateType states = VATA::AutBase::SanitizeAutsForInclusion(s, g);
				BDDBottomUpTreeAut u = BDDBottomUpTreeAut::UnionDisjointStates(s, g);
				VATA::SimParam sp(spDown);
				sp.SetNumStates(states);
				VATA::AutBase::StateDiscontBinaryRelation sim = u.ComputeSimulation(sp);
				InclParam ip = from_word(2 | 8 | 16);
				ip.SetSimulation(&sim);
				got = BDDBottomUpTreeAut::CheckInclusion(s, g, ip);
			}
			judge(ctx, "bu:down-rec:sim", got, want, expect);
			{
				eng::LibSection ls(ctx, "bdd-bu:down-rec:sim:direct");
				VATA::AutBase::StateDiscontBinaryRelation dummy;
				InclParam ip = from_word(2 | 8 | 16);
				ip.SetSimulation(&dummy);
				got = BDDBottomUpTreeAut::CheckInclusion(a, b, ip);
			}
			judge(ctx, "bu:down-rec:sim:direct", got, want, expect);
		}
		catch (const std::exception& e) { ctx.fail("bdd-incl:bu:down-rec:sim:exception", e.what()); }

		// unimplemented selections must throw (sampled: the sweep costs 125 calls)
		if (first && c.header[7] % 10 == 3) {
			if (first) ctx.tag("must-throw-sweep");
			VATA::AutBase::StateDiscontBinaryRelation dummy;
			for (unsigned word = 0; word < 128; ++word) {
				if (word == 0 || word == 16 || word == (2 | 8 | 16)) continue;   // implemented; UP_SIM not claimed
				InclParam ip = from_word(word);
				ip.SetSimulation(&dummy);
				bool threw = false;
				try {
					eng::LibSection ls(ctx, "bdd-bu:unimplemented:" + std::to_string(word));
					BDDBottomUpTreeAut::CheckInclusion(a, b, ip);
				}
				catch (const std::exception&) { threw = true; }
				ctx.count("must_throw_checked");
				if (!threw) { ctx.fail("bdd-incl:bu:unimplemented:no-exception", "selection word " + std::to_string(word) + " returned a verdict instead of throwing"); break; }
			}
		}
	}

	// ---------------- top-down encoding
	{
		BDDTopDownTreeAut a, b;
		{
			eng::LibSection ls(ctx, "bdd-td:load");
			a = libbdd::load<BDDTopDownTreeAut>(c.A, c.orderA, c.numA);
			b = libbdd::load<BDDTopDownTreeAut>(c.B, c.orderB, c.numB);
		}
		for (int optC = 0; optC < 2; ++optC) {
			const std::string name = std::string("td:down-rec") + (optC ? "-optC" : "") + ":nosim";
			const unsigned word = 2 | 8 | (optC ? 4u : 0u);
			try {
				bool got;
				{
					eng::LibSection ls(ctx, "bdd-" + name);
					BDDTopDownTreeAut s(a), g(b);
					VATA::AutBase::SanitizeAutsForInclusion(s, g);
					got = BDDTopDownTreeAut::CheckInclusion(s, g, from_word(word));
				}
				judge(ctx, name, got, want, expect);
				{
					eng::LibSection ls(ctx, "bdd-" + name + ":direct");
					got = BDDTopDownTreeAut::CheckInclusion(a, b, from_word(word));
				}
				judge(ctx, name + ":direct", got, want, expect);
			}
			catch (const std::exception& e) { ctx.fail("bdd-incl:" + name + ":exception", e.what()); }
		}
		// with simulation: the relation is obtained the way the library itself does it (BU path)
		for (int optC = 0; optC < 2; ++optC) {
			const std::string name = std::string("td:down-rec") + (optC ? "-optC" : "") + ":sim";
			try {
				bool got;
				{
					eng::LibSection ls(ctx, "bdd-" + name);
					BDDBottomUpTreeAut s = libbdd::load<BDDBottomUpTreeAut>(c.A, c.orderA, c.numA);
					BDDBottomUpTreeAut g = libbdd::load<BDDBottomUpTreeAut>(c.B, c.orderB, c.numB);
					VATA::AutBase::StateType states = VATA::AutBase::SanitizeAutsForInclusion(s, g);
					BDDBottomUpTreeAut u = BDDBottomUpTreeAut::UnionDisjointStates(s, g);
					VATA::SimParam sp(spDown);
					sp.SetNumStates(states);
					VATA::AutBase::StateDiscontBinaryRelation sim = u.ComputeSimulation(sp);
					BDDTopDownTreeAut std_ = s.GetTopDownAut(), gtd = g.GetTopDownAut();
					InclParam ip = from_word(2 | 8 | 16 | (optC ? 4u : 0u));
					ip.SetSimulation(&sim);
					got = BDDTopDownTreeAut::CheckInclusion(std_, gtd, ip);
				}
				judge(ctx, name, got, want, expect);
			}
			catch (const std::exception& e) { ctx.fail("bdd-incl:" + name + ":exception", e.what()); }
		}
		if (first && c.header[7] % 10 == 4) {
			if (first) ctx.tag("must-throw-sweep");
			VATA::AutBase::StateDiscontBinaryRelation dummy;
			for (unsigned word = 0; word < 128; ++word) {
				if (word == (2 | 8) || word == (2 | 8 | 4) || word == (2 | 8 | 16) || word == (2 | 8 | 4 | 16)) continue;
				InclParam ip = from_word(word);
				ip.SetSimulation(&dummy);
				bool threw = false;
				try {
					eng::LibSection ls(ctx, "bdd-td:unimplemented:" + std::to_string(word));
					BDDTopDownTreeAut::CheckInclusion(a, b, ip);
				}
				catch (const std::exception&) { threw = true; }
				ctx.count("must_throw_checked");
				if (!threw) { ctx.fail("bdd-incl:td:unimplemented:no-exception", "selection word " + std::to_string(word) + " returned a verdict instead of throwing"); break; }
			}
		}
	}
}

void harness::run_case(const eng::Raw& raw, eng::Ctx& ctx)
{
	gen::Limits lim;
	lim.maxStates = ctx.tier() ? 5 : 4;
	lim.arity3 = true;
	lim.overload = true;
	lim.fanoutEvery = 8;
	//                          indep sup abl split leaf detB degen
	const std::vector<int> w = {3,    2,  4,  6,    2,   2,   1};
	gen::PairCase c = gen::decode_pair(raw, lim, w);
	ctx.describe(gen::describe_pair(c));
	ctx.tag(std::string("strategy:") + gen::strategy_name(c.strategy));
	ctx.small_case(c.A.states().size() <= 6 && c.B.states().size() <= 6 && c.A.rules.size() <= 12 && c.B.rules.size() <= 12);

	check_pair(ctx, c, true);
	// the converse question on the same pair, in the same child
	gen::PairCase d(c);
	std::swap(d.A, d.B); std::swap(d.nA, d.nB); std::swap(d.numA, d.numB); std::swap(d.orderA, d.orderB);
	check_pair(ctx, d, false);
}
