// Shared by C01 / C19 / C20: the eight explicit inclusion selections, driven
// exactly the way cli/operations.hh and unit_tests/tree_aut_test.hh drive them.
#pragma once
#include <memory>
#include "../engine/ctx.hh"
#include "../engine/ref_ta.hh"

#include <vata/explicit_tree_aut.hh>
#include <vata/incl_param.hh>
#include <vata/sim_param.hh>

namespace inclc {

struct Cfg { const char* name; bool down, rec, optC, sim; };

inline const std::vector<Cfg>& explicit_cfgs()
{
	static const std::vector<Cfg> c = {
		{"up:nosim",            false, false, false, false},
		{"up:sim",              false, false, false, true},
		{"down-nonrec:nosim",   true,  false, false, false},
		{"down-nonrec:sim",     true,  false, false, true},
		{"down-rec:nosim",      true,  true,  false, false},
		{"down-rec:sim",        true,  true,  false, true},
		{"down-rec-optC:nosim", true,  true,  true,  false},
		{"down-rec-optC:sim",   true,  true,  true,  true},
	};
	return c;
}

inline VATA::InclParam make_param(const Cfg& cfg)
{
	VATA::InclParam ip;
	ip.SetAlgorithm(VATA::InclParam::e_algorithm::antichains);
	ip.SetDirection(cfg.down ? VATA::InclParam::e_direction::downward : VATA::InclParam::e_direction::upward);
	ip.SetUseRecursion(cfg.rec);
	ip.SetUseDownwardCacheImpl(cfg.optC);
	ip.SetUseSimulation(cfg.sim);
	return ip;
}

// reference verdict, re-validated before it is trusted (DESIGN §3.1)
inline bool reference_verdict(eng::Ctx& ctx, const ref::TA& A, const ref::TA& B, ref::InclResult& out)
{
	out = ref::included(A, B, ctx.tier() ? 300000 : 50000);
	if (out.verdict == ref::Tri::UNKNOWN) { ctx.inconclusive("oracle-cap"); return false; }
	if (out.verdict == ref::Tri::NO) {
		if (!A.accepts(out.witness) || B.accepts(out.witness)) {
			ctx.machinery_error("reference witness " + ref::show(out.witness) + " does not separate the automata");
			return false;
		}
	}
	return true;
}

// how run_selection hands the simulation relation over (set by the harness from a generated word):
// 0 the object ComputeSimulation was assigned to, 1 a copy-constructed relation whose original was destroyed,
// 2 a copy-assigned one
inline int& relation_variant() { static int v = 0; return v; }

// one selection through the CLI protocol; returns the verdict
inline bool run_selection(eng::Ctx& ctx, const VATA::ExplicitTreeAut& a, const VATA::ExplicitTreeAut& b,
	const Cfg& cfg, const std::string& phasePrefix)
{
	using VATA::ExplicitTreeAut;
	VATA::InclParam ip = make_param(cfg);
	eng::LibSection ls(ctx, phasePrefix + cfg.name);
	ExplicitTreeAut s(a), g(b);
	VATA::AutBase::StateType states = VATA::AutBase::SanitizeAutsForInclusion(s, g);
	typedef VATA::AutBase::StateDiscontBinaryRelation Rel;
	std::unique_ptr<Rel> sim(new Rel);
	if (cfg.sim) {
		ExplicitTreeAut u = ExplicitTreeAut::UnionDisjointStates(s, g);
		VATA::SimParam sp;
		sp.SetRelation(cfg.down ? VATA::SimParam::e_sim_relation::TA_DOWNWARD
		                        : VATA::SimParam::e_sim_relation::TA_UPWARD);
		sp.SetNumStates(states);
		*sim = u.ComputeSimulation(sp);
		// the relation is a value: a caller may hand over a copy whose original is gone
		if (relation_variant() == 1) { std::unique_ptr<Rel> cp(new Rel(*sim)); sim = std::move(cp); }
		else if (relation_variant() == 2) { std::unique_ptr<Rel> cp(new Rel); *cp = *sim; sim = std::move(cp); }
		ip.SetSimulation(sim.get());
	}
	return ExplicitTreeAut::CheckInclusion(s, g, ip);
}

inline void judge(eng::Ctx& ctx, const std::string& what, bool got, bool want, const ref::InclResult& expect)
{
	ctx.count("verdicts");
	if (got == want) return;
	ctx.fail("incl:" + what + (got ? ":false-positive" : ":false-negative"),
		what + " answered " + (got ? "included" : "not included") + ", reference says " +
		(want ? "included" : ("not included, witness " + ref::show(expect.witness))));
}

inline void check_all_explicit(eng::Ctx& ctx, const VATA::ExplicitTreeAut& a, const VATA::ExplicitTreeAut& b,
	bool want, const ref::InclResult& expect)
{
	using VATA::ExplicitTreeAut;
	for (const Cfg& cfg : explicit_cfgs()) {
		bool got;
		try { got = run_selection(ctx, a, b, cfg, "incl:"); }
		catch (const std::exception& e) {
			ctx.fail(std::string("incl:") + cfg.name + ":exception", e.what());
			continue;
		}
		judge(ctx, cfg.name, got, want, expect);
		if (!cfg.sim) {
			// the dispatcher sanitises internally: unprepared operands (possibly with
			// overlapping state numbers) are legal input for the NOSIM selections
			try {
				eng::LibSection ls(ctx, std::string("incl-direct:") + cfg.name);
				got = ExplicitTreeAut::CheckInclusion(a, b, make_param(cfg));
			}
			catch (const std::exception& e) {
				ctx.fail(std::string("incl-direct:") + cfg.name + ":exception", e.what());
				continue;
			}
			judge(ctx, std::string("direct:") + cfg.name, got, want, expect);
		}
	}
	{
		bool got;
		{
			eng::LibSection ls(ctx, "incl-default");
			got = ExplicitTreeAut::CheckInclusion(a, b);
		}
		judge(ctx, "default", got, want, expect);
	}
}

} // namespace inclc
