// C11 — explicit automata are values: copies isolated, results depend only on operands
#include "tree_common.hh"
#include "../engine/lib_fa.hh"
#include "incl_common.hh"

const char* const harness::ID = "C11";

using VATA::ExplicitTreeAut;
using VATA::ExplicitFiniteAut;
using StateType = VATA::AutBase::StateType;

namespace {

const size_t MAXH = 6;

struct Repeat {          // a value/verdict producing call to be repeated at the end of the history
	std::string op;
	ref::TA a, b;
	uint32_t par;
	// observed outcome
	bool isVerdict = false, verdict = false, direct = false;
	ref::TA result;
};

struct FRepeat {
	std::string op;
	ref::NFA a, b;
	ref::NFA result;
};

struct World {
	eng::Ctx& ctx;
	std::vector<std::unique_ptr<ExplicitTreeAut>> th;
	std::vector<ref::TA> tm;                 // model values (library state numbers)
	std::vector<int> tgrp;                   // storage-sharing groups (for the non-triviality rule only)
	std::vector<std::unique_ptr<ExplicitFiniteAut>> fh;
	std::vector<ref::NFA> fm;
	std::vector<int> fgrp;
	int nextGrp = 0;
	std::ostringstream log;
	int step = 0;
	bool mutatedShared = false;
	std::vector<Repeat> repeats;
	std::vector<FRepeat> frepeats;
	std::set<std::string> ops;
	bool failed = false;
	explicit World(eng::Ctx& c) : ctx(c) {}

	bool tshares(size_t i) const { for (size_t j = 0; j < th.size(); ++j) if (j != i && tgrp[j] == tgrp[i]) return true; return false; }
	bool fshares(size_t i) const { for (size_t j = 0; j < fh.size(); ++j) if (j != i && fgrp[j] == fgrp[i]) return true; return false; }

	void tput(ExplicitTreeAut&& a, const ref::TA& val, int grp, uint32_t sel)
	{
		if (th.size() < MAXH) { th.emplace_back(new ExplicitTreeAut(std::move(a))); tm.push_back(val); tgrp.push_back(grp); return; }
		size_t i = sel % th.size();
		th[i].reset(new ExplicitTreeAut(std::move(a))); tm[i] = val; tgrp[i] = grp;
	}
	void fput(ExplicitFiniteAut&& a, const ref::NFA& val, int grp, uint32_t sel)
	{
		if (fh.size() < 4) { fh.emplace_back(new ExplicitFiniteAut(std::move(a))); fm.push_back(val); fgrp.push_back(grp); return; }
		size_t i = sel % fh.size();
		fh[i].reset(new ExplicitFiniteAut(std::move(a))); fm[i] = val; fgrp[i] = grp;
	}

	// the invariant: every live handle reads back as its model value
	void check_all(const std::string& afterWhat)
	{
		eng::LibSection ls(ctx, "read-all-handles");
		for (size_t i = 0; i < th.size(); ++i) {
			ref::TA now = lib::read(*th[i]);
			if (now != tm[i]) {
				ctx.fail("value:tree:" + afterWhat + ":visible-elsewhere",
					"after step " + std::to_string(step) + " (" + afterWhat + ") tree handle h" + std::to_string(i) + " reads " + now.str() +
					" but its value is " + tm[i].str() + " [history: " + log.str() + "]");
				failed = true;
				return;
			}
		}
		for (size_t i = 0; i < fh.size(); ++i) {
			ref::NFA now = libfa::read(*fh[i]);
			if (!(now == fm[i])) {
				ctx.fail("value:fa:" + afterWhat + ":visible-elsewhere",
					"after step " + std::to_string(step) + " (" + afterWhat + ") FA handle f" + std::to_string(i) + " reads " + now.str() +
					" but its value is " + fm[i].str() + " [history: " + log.str() + "]");
				failed = true;
				return;
			}
		}
		ctx.count("invariant_checks");
	}
};

struct SymMapF : public ExplicitTreeAut::AbstractSymbolTranslateF {
	std::map<lib::SymbolType, lib::SymbolType> m;
	virtual lib::SymbolType operator()(const lib::SymbolType& s) override { auto it = m.find(s); return it == m.end() ? s : it->second; }
};

struct ShiftF : public VATA::AbstractReindexF {
	StateType k = 0;       // q -> (q + k) % 5 below 5 (the state range of the hand-added rules), identity above
	StateType f(const StateType& s) const { return s < 5 ? (s + k) % 5 : s; }
	virtual StateType operator[](const StateType& s) override { return f(s); }
	virtual StateType at(const StateType& s) const override { return f(s); }
};
struct ParityCopyF : public ExplicitTreeAut::AbstractCopyF {
	uint32_t sel = 0;      // keeps the rules whose (parent + arity) has the selected parity; sel >= 2 keeps everything
	virtual bool operator()(const ExplicitTreeAut::Transition& t) override
	{
		return sel >= 2 || ((t.GetParent() + t.GetChildren().size()) % 2) == sel;
	}
};

// executes a value-producing tree operation; returns false when it was skipped
bool tree_value_op(eng::Ctx& ctx, const std::string& op, const ExplicitTreeAut& a, const ExplicitTreeAut& b,
	const ref::TA& va, const ref::TA& vb, uint32_t par, ExplicitTreeAut& out)
{
	eng::LibSection ls(ctx, "tree:" + op);
	if (op == "Union") out = ExplicitTreeAut::Union(a, b);
	else if (op == "UnionDisjointStates") {
		std::set<int> sa = va.states();
		for (int q : vb.states()) if (sa.count(q)) return false;
		if (&a == &b) return false;
		out = ExplicitTreeAut::UnionDisjointStates(a, b);
	}
	else if (op == "Intersection") out = ExplicitTreeAut::Intersection(a, b);
	else if (op == "IntersectionBU") out = ExplicitTreeAut::IntersectionBU(a, b);
	else if (op == "RemoveUnreachableStates") out = a.RemoveUnreachableStates();
	else if (op == "RemoveUselessStates") out = a.RemoveUselessStates();
	else if (op == "Reduce") out = a.Reduce();
	else if (op == "GetCandidateTree") out = a.GetCandidateTree();
	else if (op == "ReindexStates") {
		VATA::AutBase::StateToStateMap m;
		StateType cnt = par % 7;
		VATA::AutBase::StateToStateTranslWeak tr(m, [&cnt](const StateType&) { return cnt++; });
		out = a.ReindexStates(tr);
	}
	else if (op == "CollapseStates") {
		VATA::AutBase::StateToStateMap m;
		for (int q : va.states()) m[static_cast<StateType>(q)] = static_cast<StateType>(q % (1 + par % 3));
		out = a.CollapseStates(m);
	}
	else if (op == "TranslateSymbols") {
		SymMapF f;
		ExplicitTreeAut::AlphabetType alpha = a.GetAlphabet();
		f.m[lib::sym_to_lib(alpha, 0)] = lib::sym_to_lib(alpha, 1);     // a -> b
		f.m[lib::sym_to_lib(alpha, 4)] = lib::sym_to_lib(alpha, 5);     // g -> h
		out = a.TranslateSymbols(f);
	}
	else return false;
	return true;
}

const char* TREE_VALUE_OPS[] = {"Union", "UnionDisjointStates", "Intersection", "IntersectionBU", "RemoveUnreachableStates",
	"RemoveUselessStates", "Reduce", "GetCandidateTree", "ReindexStates", "CollapseStates", "TranslateSymbols"};
const bool TREE_OP_SHARES[] = {false, true, false, false, true, true, false, false, false, false, true};

bool fa_value_op(eng::Ctx& ctx, const std::string& op, ExplicitFiniteAut& a, ExplicitFiniteAut& b,
	const ref::NFA& va, const ref::NFA& vb, ExplicitFiniteAut& out)
{
	eng::LibSection ls(ctx, "fa:" + op);
	if (op == "Union") out = ExplicitFiniteAut::Union(a, b);
	else if (op == "UnionDisjointStates") {
		std::set<int> sa = va.states();
		for (int q : vb.states()) if (sa.count(q)) return false;
		if (&a == &b) return false;
		out = ExplicitFiniteAut::UnionDisjointStates(a, b);
	}
	else if (op == "Intersection") out = ExplicitFiniteAut::Intersection(a, b);
	else if (op == "Reverse") out = a.Reverse();
	else if (op == "RemoveUnreachableStates") out = a.RemoveUnreachableStates();
	else if (op == "RemoveUselessStates") out = a.RemoveUselessStates();
	else if (op == "GetCandidateTree") out = a.GetCandidateTree();
	else return false;
	return true;
}
const char* FA_VALUE_OPS[] = {"Union", "UnionDisjointStates", "Intersection", "Reverse", "RemoveUnreachableStates", "RemoveUselessStates", "GetCandidateTree"};

} // namespace

void harness::run_case(const eng::Raw& raw, eng::Ctx& ctx)
{
	const eng::Rec h = raw.empty() ? eng::Rec{} : raw[0];
	const size_t body = raw.size() > 1 ? raw.size() - 1 : 0;
	const size_t k = std::min(body, static_cast<size_t>(6 + h[0] % (ctx.tier() ? 26 : 16)));
	const size_t firstStep = raw.size() - k;
	gen::Limits lim;
	lim.maxStates = 4;
	lim.arity3 = false;
	std::vector<gen::TACase> autos(3);
	std::vector<ref::NFA> nfas(2);
	for (size_t t = 0; t < 3; ++t) {
		eng::Raw sub;
		eng::Rec hh = h;
		hh[1] = h[1 + t]; hh[2] = h[4]; hh[3] = h[5 + (t % 2)];
		sub.push_back(hh);
		for (size_t i = 1; i < firstStep; ++i) if ((raw[i][0] / 8) % 3 == t) sub.push_back(raw[i]);
		autos[t] = gen::decode_ta(sub, lim, false);
	}
	{
		eng::Raw sub(raw.begin(), raw.begin() + static_cast<long>(std::max<size_t>(firstStep, 1)));
		nfas[0] = ref::nfa_from_raw(sub, 4, 2, 0);
		nfas[1] = ref::nfa_from_raw(sub, 4, 2, 1).shifted(10);
	}
	{
		std::ostringstream d;
		for (size_t t = 0; t < 3; ++t) d << "T" << t << " (numbering " << autos[t].num.str() << "): " << autos[t].A.str() << "\n";
		for (size_t t = 0; t < 2; ++t) d << "N" << t << ": " << nfas[t].str() << "\n";
		d << "planned steps (kind:op(args)):";
		for (size_t i = firstStep; i < raw.size(); ++i) d << " " << (raw[i][3] % 4 == 3 ? "fa" : "ta") << ":" << raw[i][0] % 16 << "(" << raw[i][1] % 6 << "," << raw[i][2] % 6 << ")";
		ctx.describe(d.str() + "\n");
	}
	ctx.small_case(true);

	World W(ctx);
	const gen::Numbering id = lib::identity_numbering(2000);

	for (size_t si = firstStep; si < raw.size() && !W.failed; ++si) {
		const eng::Rec& r = raw[si];
		++W.step;
		// the no-verdict rule (DESIGN 2.2) only applies while every live value is tiny: results of results grow, and the
		// exponential calls (inclusion) are legitimately slow on them
		{
			bool tiny = true;
			for (auto& m : W.tm) if (m.states().size() > 6 || m.rules.size() > 14) tiny = false;
			for (auto& m : W.fm) if (m.states().size() > 8) tiny = false;
			ctx.small_case(tiny);
		}
		const bool fa = (r[3] % 4 == 3);
		uint32_t op = r[0] % 16;
		std::string what;
		if (!fa) {
			if (W.th.empty() && op != 0) op = 1;
			auto pick = [&](uint32_t v) { return static_cast<size_t>(v % W.th.size()); };
			switch (op) {
				case 0: {   // default-construct
					what = "construct";
					W.log << W.step << ":ta.construct ";
					eng::LibSection ls(ctx, "tree:construct");
					W.tput(ExplicitTreeAut(), ref::TA(), W.nextGrp++, r[4]);
					break;
				}
				case 1: case 2: {   // build/load a generated automaton
					what = "load";
					const gen::TACase& t = autos[r[1] % 3];
					W.log << W.step << ":ta.load(T" << r[1] % 3 << ") ";
					eng::LibSection ls(ctx, "tree:load");
					ExplicitTreeAut a = (op == 1) ? lib::build(t.A, t.order, t.num) : lib::load(t.A, t.order, t.num);
					W.tput(std::move(a), tc::lib_view(t.A, t.num), W.nextGrp++, r[4]);
					break;
				}
				case 3: {   // copy-construct, all four (copyTrans, copyFinal) combinations
					what = "copy-construct";
					size_t i = pick(r[1]);
					const bool ct = (r[2] % 4) != 1 && (r[2] % 4) != 3, cf = (r[2] % 4) < 2;
					W.log << W.step << ":ta.copy(h" << i << "," << ct << "," << cf << ") ";
					ref::TA val;
					if (ct) val.rules = W.tm[i].rules;
					if (cf) val.finals = W.tm[i].finals;
					eng::LibSection ls(ctx, "tree:copy-construct");
					ExplicitTreeAut cpy(*W.th[i], ct, cf);
					W.tput(std::move(cpy), val, ct ? W.tgrp[i] : W.nextGrp++, r[4]);
					break;
				}
				case 4: {   // copy-assign (including self)
					what = "copy-assign";
					size_t i = pick(r[1]), j = pick(r[2]);
					W.log << W.step << ":ta.assign(h" << j << "=h" << i << ") ";
					eng::LibSection ls(ctx, "tree:copy-assign");
					*W.th[j] = *W.th[i];
					W.tm[j] = W.tm[i]; W.tgrp[j] = W.tgrp[i];
					break;
				}
				case 5: {   // move-construct: the source is only destroyed afterwards
					what = "move-construct";
					size_t i = pick(r[1]);
					W.log << W.step << ":ta.move(h" << i << ") ";
					eng::LibSection ls(ctx, "tree:move-construct");
					ExplicitTreeAut moved(std::move(*W.th[i]));
					ref::TA val = W.tm[i]; int grp = W.tgrp[i];
					W.th.erase(W.th.begin() + static_cast<long>(i)); W.tm.erase(W.tm.begin() + static_cast<long>(i)); W.tgrp.erase(W.tgrp.begin() + static_cast<long>(i));
					W.tput(std::move(moved), val, grp, r[4]);
					break;
				}
				case 6: {   // move-assign (never onto itself)
					what = "move-assign";
					if (W.th.size() < 2) break;
					size_t i = pick(r[1]), j = pick(r[2]);
					if (i == j) j = (i + 1) % W.th.size();
					W.log << W.step << ":ta.move-assign(h" << j << "<-h" << i << ") ";
					eng::LibSection ls(ctx, "tree:move-assign");
					*W.th[j] = std::move(*W.th[i]);
					W.tm[j] = W.tm[i]; W.tgrp[j] = W.tgrp[i];
					W.th.erase(W.th.begin() + static_cast<long>(i)); W.tm.erase(W.tm.begin() + static_cast<long>(i)); W.tgrp.erase(W.tgrp.begin() + static_cast<long>(i));
					break;
				}
				case 7: case 8: {   // AddTransition
					what = "AddTransition";
					size_t i = pick(r[1]);
					ref::Rule rule;
					rule.sym = gen::sym_order()[r[2] % 5];       // a g f b h
					rule.par = static_cast<int>(r[4] % 5);
					for (int c = 0; c < ref::arity(rule.sym); ++c) rule.ch.push_back(static_cast<int>(r[5 + static_cast<size_t>(c)] % 5));
					W.log << W.step << ":ta.add(h" << i << ") ";
					if (W.tshares(i)) W.mutatedShared = true;
					eng::LibSection ls(ctx, "tree:AddTransition");
					ExplicitTreeAut::StateTuple ch;
					for (int c : rule.ch) ch.push_back(static_cast<StateType>(c));
					if (r[7] % 2) W.th[i]->AddTransition(ch, lib::sym_to_lib(W.th[i]->GetAlphabet(), rule.sym), static_cast<StateType>(rule.par));
					else W.th[i]->AddTransition(ExplicitTreeAut::Transition(static_cast<StateType>(rule.par), lib::sym_to_lib(W.th[i]->GetAlphabet(), rule.sym), ch));
					W.tm[i].rules.insert(rule);
					W.tgrp[i] = W.nextGrp++;
					break;
				}
				case 9: {
					what = "SetStateFinal";
					size_t i = pick(r[1]);
					W.log << W.step << ":ta.final(h" << i << "," << r[2] % 5 << ") ";
					if (W.tshares(i)) W.mutatedShared = true;
					eng::LibSection ls(ctx, "tree:SetStateFinal");
					if (r[4] % 3 == 0) {
						// the bulk overload ADDS the given states (possibly none) to the final set
						std::set<StateType> bulk;
						for (uint32_t b = 0; b < 5; ++b) if ((r[5] >> b) & 1) bulk.insert(b);
						W.th[i]->SetStatesFinal(bulk);
						for (StateType b : bulk) W.tm[i].finals.insert(static_cast<int>(b));
						what = "SetStatesFinal";
						break;
					}
					W.th[i]->SetStateFinal(r[2] % 5);
					W.tm[i].finals.insert(static_cast<int>(r[2] % 5));
					break;
				}
				case 10: {
					what = "EraseFinalStates";
					size_t i = pick(r[1]);
					W.log << W.step << ":ta.erase-finals(h" << i << ") ";
					if (W.tshares(i)) W.mutatedShared = true;
					eng::LibSection ls(ctx, "tree:EraseFinalStates");
					W.th[i]->EraseFinalStates();
					W.tm[i].finals.clear();
					break;
				}
				case 11: {
					what = "Clear";
					size_t i = pick(r[1]);
					W.log << W.step << ":ta.clear(h" << i << ") ";
					if (W.tshares(i)) W.mutatedShared = true;
					eng::LibSection ls(ctx, "tree:Clear");
					W.th[i]->Clear();
					W.tm[i] = ref::TA();
					W.tgrp[i] = W.nextGrp++;
					break;
				}
				case 12: {
					what = "destroy";
					if (W.th.size() < 2) break;
					size_t i = pick(r[1]);
					W.log << W.step << ":ta.destroy(h" << i << ") ";
					eng::LibSection ls(ctx, "tree:destroy");
					W.th.erase(W.th.begin() + static_cast<long>(i)); W.tm.erase(W.tm.begin() + static_cast<long>(i)); W.tgrp.erase(W.tgrp.begin() + static_cast<long>(i));
					break;
				}
				case 13: case 14: {   // value-producing operation; the result enters the pool with the value observed now
					size_t i = pick(r[1]), j = pick(r[2]);
					if (i != j && (r[7] % 3) == 0) {
						// the two public calls that write INTO an existing automaton of the caller (which may share storage)
						if (W.tshares(j)) W.mutatedShared = true;
						if ((r[7] / 3) % 2) {
							what = "ReindexStates-into";
							ShiftF f; f.k = r[5] % 5;
							const bool addFinals = (r[6] % 2) == 0;
							W.log << W.step << ":ta.ReindexStates(h" << i << " into h" << j << ",+" << f.k << "," << addFinals << ") ";
							std::map<int,int> hm;
							for (int q : W.tm[i].states()) hm[q] = static_cast<int>(f.f(static_cast<StateType>(q)));
							ref::TA img = W.tm[i].image(hm);
							{ eng::LibSection ls(ctx, "tree:ReindexStates-into"); W.th[i]->ReindexStates(*W.th[j], f, addFinals); }
							W.tm[j].rules.insert(img.rules.begin(), img.rules.end());
							if (addFinals) W.tm[j].finals.insert(img.finals.begin(), img.finals.end());
						} else {
							what = "CopyTransitionsFrom";
							ParityCopyF f; f.sel = r[5] % 3;
							W.log << W.step << ":ta.CopyTransitionsFrom(h" << j << " <- h" << i << ",sel=" << f.sel << ") ";
							{ eng::LibSection ls(ctx, "tree:CopyTransitionsFrom"); W.th[j]->CopyTransitionsFrom(*W.th[i], f); }
							for (auto& rule : W.tm[i].rules)
								if (f.sel >= 2 || ((static_cast<uint32_t>(rule.par) + rule.ch.size()) % 2) == f.sel) W.tm[j].rules.insert(rule);
						}
						W.tgrp[j] = W.nextGrp++;
						break;
					}
					const size_t oi = r[4] % (sizeof(TREE_VALUE_OPS) / sizeof(TREE_VALUE_OPS[0]));
					const std::string name = TREE_VALUE_OPS[oi];
					what = name;
					ExplicitTreeAut out;
					if (!tree_value_op(ctx, name, *W.th[i], *W.th[j], W.tm[i], W.tm[j], r[5], out)) { ctx.count("skipped_precondition"); break; }
					W.log << W.step << ":ta." << name << "(h" << i << ",h" << j << ") ";
					ref::TA val;
					{ eng::LibSection ls(ctx, "tree:" + name + ":read"); val = lib::read(out, W.th[i]->GetAlphabet()); }
					if (name == "GetCandidateTree") {
						// whatever happened to this handle before, the witness must belong to its CURRENT value
						ref::InclResult wr = ref::included(val, W.tm[i], 20000);
						if (wr.verdict == ref::Tri::NO || (val.empty_lang() && !W.tm[i].empty_lang()))
							ctx.fail("value:tree:GetCandidateTree:stale-or-wrong", "witness " + val.str() + " does not fit the handle's current value " + W.tm[i].str() + " [history: " + W.log.str() + "]");
					}
					Repeat rep; rep.op = name; rep.a = W.tm[i]; rep.b = W.tm[j]; rep.par = r[5]; rep.result = val;
					W.repeats.push_back(rep);
					W.tput(std::move(out), val, TREE_OP_SHARES[oi] ? W.tgrp[i] : W.nextGrp++, r[6]);
					break;
				}
				default: {  // verdict-producing calls
					size_t i = pick(r[1]), j = pick(r[2]);
					// half of the time between two handles that (potentially) share storage
					if (r[5] % 2) for (size_t k = 0; k < W.th.size(); ++k) if (k != i && W.tgrp[k] == W.tgrp[i]) { j = k; break; }
					what = "verdict";
					W.log << W.step << ":ta.verdict(h" << i << ",h" << j << ") ";
					Repeat rep; rep.isVerdict = true; rep.a = W.tm[i]; rep.b = W.tm[j]; rep.par = r[4];
					if (r[4] % 3 == 0) {
						rep.op = "IsLangEmpty";
						eng::LibSection ls(ctx, "tree:IsLangEmpty");
						rep.verdict = W.th[i]->IsLangEmpty();
					} else {
						const inclc::Cfg& cfg = inclc::explicit_cfgs()[(r[4] / 3) % 8];
						rep.op = std::string("CheckInclusion:") + cfg.name;
						// the selections without simulation take unprepared operands: half of those calls get the handles themselves
						rep.direct = !cfg.sim && (r[5] / 2) % 2;
						if (rep.direct) {
							eng::LibSection ls(ctx, std::string("tree:incl-direct:") + cfg.name);
							rep.verdict = ExplicitTreeAut::CheckInclusion(*W.th[i], *W.th[j], inclc::make_param(cfg));
							ctx.count("direct_verdicts_between_handles");
						}
						else rep.verdict = inclc::run_selection(ctx, *W.th[i], *W.th[j], cfg, "tree:incl:");
					}
					W.repeats.push_back(rep);
					break;
				}
			}
		}
		else {
			if (W.fh.empty() && op > 1) op = 1;
			auto pick = [&](uint32_t v) { return static_cast<size_t>(v % W.fh.size()); };
			switch (op % 10) {
				case 0: {
					what = "fa-construct";
					W.log << W.step << ":fa.construct ";
					eng::LibSection ls(ctx, "fa:construct");
					W.fput(ExplicitFiniteAut(), ref::NFA(), W.nextGrp++, r[4]);
					break;
				}
				case 1: {
					what = "fa-load";
					const ref::NFA& n = nfas[r[1] % 2];
					W.log << W.step << ":fa.load(N" << r[1] % 2 << ") ";
					eng::LibSection ls(ctx, "fa:load");
					W.fput((r[2] % 2) ? libfa::build(n, id) : libfa::load(n, id), n, W.nextGrp++, r[4]);
					break;
				}
				case 2: {
					what = "fa-copy-construct";
					size_t i = pick(r[1]);
					W.log << W.step << ":fa.copy(f" << i << ") ";
					eng::LibSection ls(ctx, "fa:copy-construct");
					ExplicitFiniteAut cpy(*W.fh[i]);
					W.fput(std::move(cpy), W.fm[i], W.fgrp[i], r[4]);
					break;
				}
				case 3: {
					what = "fa-copy-assign";
					size_t i = pick(r[1]), j = pick(r[2]);
					W.log << W.step << ":fa.assign(f" << j << "=f" << i << ") ";
					eng::LibSection ls(ctx, "fa:copy-assign");
					*W.fh[j] = *W.fh[i];
					W.fm[j] = W.fm[i]; W.fgrp[j] = W.fgrp[i];
					break;
				}
				case 4: {
					what = "fa-move";
					size_t i = pick(r[1]);
					W.log << W.step << ":fa.move(f" << i << ") ";
					eng::LibSection ls(ctx, "fa:move-construct");
					ExplicitFiniteAut moved(std::move(*W.fh[i]));
					ref::NFA val = W.fm[i]; int grp = W.fgrp[i];
					W.fh.erase(W.fh.begin() + static_cast<long>(i)); W.fm.erase(W.fm.begin() + static_cast<long>(i)); W.fgrp.erase(W.fgrp.begin() + static_cast<long>(i));
					W.fput(std::move(moved), val, grp, r[4]);
					break;
				}
				case 5: {
					what = "fa-AddTransition";
					size_t i = pick(r[1]);
					const int from = static_cast<int>(r[2] % 5), sy = static_cast<int>(r[4] % 2), to = static_cast<int>(r[5] % 5);
					W.log << W.step << ":fa.add(f" << i << ") ";
					if (W.fshares(i)) W.mutatedShared = true;
					eng::LibSection ls(ctx, "fa:AddTransition");
					W.fh[i]->AddTransition(static_cast<StateType>(from), libfa::sym(*W.fh[i], ref::wsym(sy)), static_cast<StateType>(to));
					W.fm[i].edges.insert(std::make_tuple(from, sy, to));
					W.fgrp[i] = W.nextGrp++;
					break;
				}
				case 6: {
					what = "fa-SetStateFinal";
					size_t i = pick(r[1]);
					W.log << W.step << ":fa.final(f" << i << ") ";
					if (W.fshares(i)) W.mutatedShared = true;
					eng::LibSection ls(ctx, "fa:SetStateFinal");
					W.fh[i]->SetStateFinal(r[2] % 5);
					W.fm[i].finals.insert(static_cast<int>(r[2] % 5));
					break;
				}
				case 7: {
					what = "fa-SetStateStart";
					size_t i = pick(r[1]);
					W.log << W.step << ":fa.start(f" << i << ") ";
					if (W.fshares(i)) W.mutatedShared = true;
					eng::LibSection ls(ctx, "fa:SetStateStart");
					W.fh[i]->SetStateStart(r[2] % 5, libfa::sym(*W.fh[i], "x"));
					W.fm[i].starts.insert(static_cast<int>(r[2] % 5));
					break;
				}
				case 8: {
					what = "fa-destroy";
					if (W.fh.size() < 2) break;
					size_t i = pick(r[1]);
					W.log << W.step << ":fa.destroy(f" << i << ") ";
					eng::LibSection ls(ctx, "fa:destroy");
					W.fh.erase(W.fh.begin() + static_cast<long>(i)); W.fm.erase(W.fm.begin() + static_cast<long>(i)); W.fgrp.erase(W.fgrp.begin() + static_cast<long>(i));
					break;
				}
				default: {
					size_t i = pick(r[1]), j = pick(r[2]);
					const std::string name = FA_VALUE_OPS[r[4] % 7];
					what = "fa-" + name;
					ExplicitFiniteAut out;
					if (!fa_value_op(ctx, name, *W.fh[i], *W.fh[j], W.fm[i], W.fm[j], out)) { ctx.count("skipped_precondition"); break; }
					W.log << W.step << ":fa." << name << "(f" << i << ",f" << j << ") ";
					ref::NFA val;
					{ eng::LibSection ls(ctx, "fa:" + name + ":read"); val = libfa::read(out); }
					FRepeat rep; rep.op = name; rep.a = W.fm[i]; rep.b = W.fm[j]; rep.result = val;
					W.frepeats.push_back(rep);
					W.fput(std::move(out), val, (name == "UnionDisjointStates" || name.compare(0, 6, "Remove") == 0) ? W.fgrp[i] : W.nextGrp++, r[6]);
					break;
				}
			}
		}
		if (what.empty()) continue;
		W.ops.insert(what);
		W.check_all(what);
	}

	// "the outcome depends only on operands": repeat every recorded call on freshly built operands,
	// after all the unrelated activity above
	for (size_t i = 0; i < W.repeats.size() && i < 8 && !W.failed; ++i) {
		const Repeat& rep = W.repeats[i];
		ctx.small_case(rep.a.states().size() <= 6 && rep.b.states().size() <= 6 && rep.a.rules.size() <= 14 && rep.b.rules.size() <= 14);
		ExplicitTreeAut a, b;
		{ eng::LibSection ls(ctx, "repeat:build"); a = lib::build(rep.a, id); b = lib::build(rep.b, id); }
		if (rep.isVerdict) {
			bool v;
			if (rep.op == "IsLangEmpty") { eng::LibSection ls(ctx, "repeat:IsLangEmpty"); v = a.IsLangEmpty(); }
			else {
				const inclc::Cfg* cfg = nullptr;
				for (auto& c : inclc::explicit_cfgs()) if (rep.op == std::string("CheckInclusion:") + c.name) cfg = &c;
				if (rep.direct) { eng::LibSection ls(ctx, std::string("repeat:incl-direct:") + cfg->name); v = ExplicitTreeAut::CheckInclusion(a, b, inclc::make_param(*cfg)); }
				else v = inclc::run_selection(ctx, a, b, *cfg, "repeat:incl:");
			}
			if (v != rep.verdict)
				ctx.fail("value:repeat:" + rep.op + ":verdict-differs", rep.op + " answered " + (rep.verdict ? "true" : "false") + " inside the history and " +
					(v ? "true" : "false") + " on fresh operands with the same values: " + rep.a.str() + " / " + rep.b.str() + " [history: " + W.log.str() + "]");
			ctx.count("repeats_checked");
			continue;
		}
		ExplicitTreeAut out;
		if (!tree_value_op(ctx, rep.op, a, b, rep.a, rep.b, rep.par, out)) continue;
		ref::TA val;
		{ eng::LibSection ls(ctx, "repeat:read"); val = lib::read(out, a.GetAlphabet()); }
		if (rep.op == "GetCandidateTree") {
			// any witness is a correct outcome (which one is found follows container iteration order,
			// i.e. how the operand was built): only emptiness is a function of the operand's value
			if (val.empty_lang() != rep.result.empty_lang())
				ctx.fail("value:repeat:GetCandidateTree:emptiness-differs", "witness " + rep.result.str() + " inside the history, " + val.str() + " on fresh operands");
		}
		else if (val.states().size() != rep.result.states().size() || val.rules.size() != rep.result.rules.size())
			ctx.fail("value:repeat:" + rep.op + ":size-differs", rep.op + " produced " + rep.result.str() + " inside the history and " + val.str() +
				" on fresh operands with the same values [history: " + W.log.str() + "]");
		else tc::expect_equiv(ctx, "value:repeat:" + rep.op, val, rep.result, rep.op + " repeated on fresh operands", 20000);
		ctx.count("repeats_checked");
	}
	for (size_t i = 0; i < W.frepeats.size() && i < 6 && !W.failed; ++i) {
		const FRepeat& rep = W.frepeats[i];
		ctx.small_case(rep.a.states().size() <= 8 && rep.b.states().size() <= 8);
		ExplicitFiniteAut a, b, out;
		{ eng::LibSection ls(ctx, "repeat:fa-build"); a = libfa::build(rep.a, id); b = libfa::build(rep.b, id); }
		if (!fa_value_op(ctx, rep.op, a, b, rep.a, rep.b, out)) continue;
		ref::NFA val;
		{ eng::LibSection ls(ctx, "repeat:fa-read"); val = libfa::read(out); }
		if (rep.op == "GetCandidateTree") {
			if (val.empty_lang() != rep.result.empty_lang())
				ctx.fail("value:repeat:fa-GetCandidateTree:emptiness-differs", "witness " + rep.result.str() + " inside the history, " + val.str() + " on fresh operands");
		}
		else if (ref::nfa_equivalent(val, rep.result) == ref::Tri::NO || val.states().size() != rep.result.states().size())
			ctx.fail("value:repeat:fa-" + rep.op + ":differs", "FA " + rep.op + " produced " + rep.result.str() + " inside the history and " + val.str() +
				" on fresh operands with the same values [history: " + W.log.str() + "]");
		ctx.count("repeats_checked");
	}
	ctx.nontrivial(W.mutatedShared);
	for (auto& o : W.ops) ctx.tag("op:" + o);
	ctx.count("steps", W.step);
	{
		eng::LibSection ls(ctx, "destroy-all");
		W.th.clear();
		W.fh.clear();
	}
}
