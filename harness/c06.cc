// C06 — Complement accepts exactly the trees over the alphabet the automaton rejects
#include "tree_common.hh"

const char* const harness::ID = "C06";

using VATA::ExplicitTreeAut;

void harness::run_case(const eng::Raw& raw, eng::Ctx& ctx)
{
	gen::Limits lim;
	lim.maxStates = ctx.tier() ? 4 : 3;
	lim.arity3 = (ctx.tier() != 0);
	gen::TACase c = gen::decode_ta(raw, lim, false);
	// extra registered symbols (possibly unused by A)
	std::vector<int> extra;
	for (int s = 0; s < ref::POOL_SIZE; ++s) {
		if (ref::arity(s) == 3 && !lim.arity3) continue;
		if ((c.header[5] >> s) & 1) extra.push_back(s);
	}
	if (c.header[6] % 4 == 0) extra.clear();
	const bool privateAlphabet = (c.header[6] / 4) % 2;
	const uint32_t flavour = c.header[0] % 5;
	if (flavour == 1) c.A.finals.clear();                       // empty language
	if (flavour == 2) {                                         // universal over its own symbols
		c.A = ref::TA();
		for (int s : c.syms) c.A.add(s, std::vector<int>(static_cast<size_t>(ref::arity(s)), 0), 0);
		c.A.finals.insert(0);
		c.order = gen::shuffled(c.A.rules, c.header[4]);
	}
	if (flavour == 3) {                                         // nullary-only alphabet
		ref::TA L;
		for (auto& r : c.A.rules) if (r.ch.empty()) L.rules.insert(r);
		L.finals = c.A.finals;
		c.A = L;
		std::vector<int> e2;
		for (int s : extra) if (ref::arity(s) == 0) e2.push_back(s);
		extra = e2;
		c.order = gen::shuffled(c.A.rules, c.header[4]);
	}
	std::string ex;
	for (int s : extra) ex += " " + ref::symname(s) + ":" + std::to_string(ref::arity(s));
	ctx.describe("flavour " + std::to_string(flavour) + (privateAlphabet ? " private-alphabet" : " global-alphabet") +
		"\nextra symbols" + ex + "\n" + gen::describe_ta(c));
	ctx.small_case(true);

	const ref::TA V = tc::lib_view(c.A, c.num);

	ExplicitTreeAut a;
	ExplicitTreeAut::AlphabetType alpha;
	ExplicitTreeAut::AbstractAlphabet::FwdTranslatorPtr kept;
	std::set<int> S;
	{
		eng::LibSection ls(ctx, "build");
		if (privateAlphabet) {
			alpha = ExplicitTreeAut::AlphabetType(new ExplicitTreeAut::OnTheFlyAlphabet);
			a.SetAlphabet(alpha);
		}
		else alpha = a.GetAlphabet();
		kept = alpha->GetSymbolTransl();      // a translator the caller keeps (used again after the first Complement)
		// interleave registration: some extras before, the rest after the rules
		for (size_t i = 0; i < extra.size(); i += 2) lib::sym_to_lib(alpha, extra[i]);
		lib::fill(a, c.A, c.order, c.num);
		for (size_t i = 1; i < extra.size(); i += 2) lib::sym_to_lib(alpha, extra[i]);
		// ground truth for S: what the automaton's alphabet dictionary holds (never assumed)
		auto otf = std::dynamic_pointer_cast<ExplicitTreeAut::OnTheFlyAlphabet>(a.GetAlphabet());
		if (!otf) { ctx.machinery_error("alphabet is not on-the-fly"); return; }
		for (auto& kv : otf->GetSymbolDict())
			S.insert(ref::symtab().id(kv.first.symbolStr, static_cast<int>(kv.first.rank)));
	}
	for (int s : V.symbols()) if (!S.count(s)) { ctx.machinery_error("used symbol missing from the alphabet dictionary"); return; }

	ExplicitTreeAut cmp;
	{
		eng::LibSection ls(ctx, "Complement");
		cmp = a.Complement();
	}
	const ref::TA C = lib::read(cmp, alpha);

	// universal automaton over S
	ref::TA Univ;
	for (int s : S) Univ.add(s, std::vector<int>(static_cast<size_t>(ref::arity(s)), 0), 0);
	Univ.finals.insert(0);
	bool hasBinary = false, hasLeaf = false;
	for (int s : S) { if (ref::arity(s) >= 2) hasBinary = true; if (ref::arity(s) == 0) hasLeaf = true; }

	const size_t cap = tc::cap(ctx);
	ref::InclResult aInU = ref::included(Univ, V, cap);      // is A universal?
	ctx.nontrivial(!V.empty_lang() && aInU.verdict == ref::Tri::NO && hasBinary);
	if (V.empty_lang()) ctx.tag("A-empty");
	if (aInU.verdict == ref::Tri::YES) ctx.tag("A-universal");
	if (!hasLeaf) ctx.tag("no-leaf-in-alphabet");
	if (S.size() > V.symbols().size()) ctx.tag("has-unused-symbols");

	// (3) no symbol outside S
	for (int s : C.symbols())
		if (!S.count(s)) { ctx.fail("complement:foreign-symbol", "complement uses symbol " + ref::symname(s) + " which is not in the alphabet"); break; }
	// (1) A ∩ C = ∅
	{
		ref::TA P = ref::product(V, C);
		if (!P.empty_lang()) {
			ref::InclResult r = ref::included(P, ref::TA(), cap);
			ctx.fail("complement:overlap", "tree " + ref::show(r.witness) + " is accepted by A and by Complement(A); A = " + V.str());
		}
	}
	// (2) every tree over S is in A or in C
	{
		ref::TA AC = ref::union_disjoint(V, C);
		ref::InclResult r = ref::included(Univ, AC, cap);
		if (r.verdict == ref::Tri::NO)
			ctx.fail("complement:gap", "tree " + ref::show(r.witness) + " over the alphabet is accepted neither by A nor by Complement(A); A = " + V.str());
		else if (r.verdict == ref::Tri::UNKNOWN) ctx.inconclusive("oracle-cap:complement-gap");
		else ctx.count("universality_checks");
	}
	// (4) secondary: enumeration of small trees (guards the reference product itself)
	{
		std::vector<ref::TreeP> trees = ref::enumerate_trees(S, 3, ctx.tier() ? 4000 : 1200);
		for (auto& t : trees) {
			const bool inA = V.accepts(t), inC = C.accepts(t);
			if (inA == inC) {
				ctx.fail(inA ? "complement:overlap" : "complement:gap",
					"tree " + ref::show(t) + (inA ? " is accepted by both" : " is accepted by neither") + "; A = " + V.str());
				break;
			}
		}
		ctx.count("trees_enumerated", static_cast<long>(trees.size()));
	}
	tc::expect_unchanged(ctx, "complement", a, V);

	// --- the alphabet grows through the KEPT translator, then the same automaton is complemented again
	{
		int extraSym = -1;
		for (int sy = 0; sy < ref::POOL_SIZE; ++sy)
			if (!S.count(sy) && (ref::arity(sy) < 3 || lim.arity3) && (flavour != 3 || ref::arity(sy) == 0)) { extraSym = sy; break; }
		if (extraSym < 0) return;
		std::set<int> S2;
		ExplicitTreeAut cmp2;
		{
			eng::LibSection ls(ctx, "Complement:after-growing-alphabet");
			(*kept)(ExplicitTreeAut::StringRank(ref::symname(extraSym), static_cast<size_t>(ref::arity(extraSym))));
			cmp2 = a.Complement();
			auto otf = std::dynamic_pointer_cast<ExplicitTreeAut::OnTheFlyAlphabet>(a.GetAlphabet());
			for (auto& kv : otf->GetSymbolDict()) S2.insert(ref::symtab().id(kv.first.symbolStr, static_cast<int>(kv.first.rank)));
		}
		if (!S2.count(extraSym)) { ctx.machinery_error("symbol registered through the kept translator is not in the dictionary"); return; }
		const ref::TA C2 = lib::read(cmp2, alpha);
		ref::TA Univ2;
		for (int sy : S2) Univ2.add(sy, std::vector<int>(static_cast<size_t>(ref::arity(sy)), 0), 0);
		Univ2.finals.insert(0);
		for (int sy : C2.symbols())
			if (!S2.count(sy)) { ctx.fail("complement-2:foreign-symbol", "second complement uses a symbol outside the grown alphabet"); break; }
		if (!ref::product(V, C2).empty_lang()) ctx.fail("complement-2:overlap", "after the alphabet grew, a tree is accepted by A and by Complement(A); A = " + V.str());
		ref::InclResult r2 = ref::included(Univ2, ref::union_disjoint(V, C2), cap);
		if (r2.verdict == ref::Tri::NO)
			ctx.fail("complement-2:gap", "after the alphabet grew by " + ref::symname(extraSym) + ", tree " + ref::show(r2.witness) + " is accepted neither by A nor by the new Complement(A); A = " + V.str());
		ctx.count("second_complements");
	}
}
