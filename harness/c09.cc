// C09 — finite-automata inclusion is exact for antichain and congruence algorithms
#include "../engine/ctx.hh"
#include "../engine/lib_fa.hh"
#include <vata/incl_param.hh>

#include <dirent.h>
#include <fstream>

const char* const harness::ID = "C09";

using VATA::ExplicitFiniteAut;
using VATA::InclParam;

namespace {

struct Sel { const char* name; bool congr; bool breadth; bool equiv; };
// the two "-equiv" selections are the congruence algorithm with InclParam::SetEquivalence(true): the dispatcher then
// decides L(A u B) = L(B) with a second functor (bisimulation up to congruence), which is the same question
const Sel SELS[] = {{"antichains", false, false, false}, {"congr-depth", true, false, false}, {"congr-breadth", true, true, false},
	{"congr-depth-equiv", true, false, true}, {"congr-breadth-equiv", true, true, true}};

InclParam param(const Sel& s)
{
	InclParam ip;
	ip.SetAlgorithm(s.congr ? InclParam::e_algorithm::congruences : InclParam::e_algorithm::antichains);
	ip.SetSearchOrder(s.breadth ? InclParam::e_search_order::breadth : InclParam::e_search_order::depth);
	ip.SetUseSimulation(false);
	if (s.equiv) ip.SetEquivalence(true);
	// the CLI leaves the direction at its default ("up" = flag not set); the FA dispatcher
	// switches on the complete option word, so the direction flag must stay clear
	return ip;
}

// repository word automata (tests/fa_timbuk_armc, files up to 60 kB): the three selections must agree with
// each other and - whenever the reference terminates within its cap - with the reference
void corpus_case(const eng::Raw& raw, eng::Ctx& ctx)
{
	const eng::Rec h = raw.empty() ? eng::Rec{} : raw[0];
	const char* repo = getenv("VERIF_REPO");
	const std::string dir = std::string(repo ? repo : "/repo") + "/tests/fa_timbuk_armc";
	std::vector<std::string> files;
	if (DIR* dp = opendir(dir.c_str())) {
		while (dirent* e = readdir(dp)) {
			if (e->d_name[0] == '.') continue;
			std::ifstream is(dir + "/" + e->d_name, std::ios::ate);
			if (is && is.tellg() < 60000) files.push_back(dir + "/" + e->d_name);
		}
		closedir(dp);
	}
	std::sort(files.begin(), files.end());
	if (files.size() < 2) { ctx.machinery_error("repository word automata not found"); return; }
	const std::string f1 = files[h[1] % files.size()], f2 = files[h[2] % files.size()];
	ctx.describe("corpus " + f1 + " <= " + f2);
	ctx.tag("source:repository-corpus");
	ctx.small_case(false);
	auto slurp = [](const std::string& p) { std::ifstream is(p); std::stringstream ss; ss << is.rdbuf(); return ss.str(); };
	ExplicitFiniteAut a, b;
	ref::NFA ra, rb;
	{
		eng::LibSection ls(ctx, "fa-corpus:load");
		VATA::Parsing::TimbukParser parser;
		a.LoadFromString(parser, slurp(f1));
		b.LoadFromString(parser, slurp(f2));
		VATA::Serialization::TimbukSerializer ser;
		dump::Names na, nb;
		std::map<std::string,int> syms;      // one symbol table for both operands
		ra = dump::to_nfa(dump::parse(a.DumpToString(ser)), na, true, &syms);
		rb = dump::to_nfa(dump::parse(b.DumpToString(ser)), nb, true, &syms);
	}
	ref::NfaInclResult expect = ref::nfa_included(ra, rb, 150000);
	ctx.nontrivial(!ra.empty_lang() && !rb.empty_lang());
	int first = -1;
	for (const Sel& s : SELS) {
		bool got;
		{
			eng::LibSection ls(ctx, std::string("fa-corpus:incl:") + s.name);
			ExplicitFiniteAut sm(a), bg(b);
			VATA::AutBase::SanitizeAutsForInclusion(sm, bg);
			got = ExplicitFiniteAut::CheckInclusion(sm, bg, param(s));
		}
		ctx.count("verdicts");
		if (expect.verdict != ref::Tri::UNKNOWN && got != (expect.verdict == ref::Tri::YES))
			ctx.fail(std::string("fa-incl:") + s.name + (got ? ":false-positive" : ":false-negative"), std::string(s.name) + " disagrees with the reference on repository automata");
		if (first < 0) first = got ? 1 : 0;
		else if ((first == 1) != got) ctx.fail(std::string("fa-incl:") + s.name + ":disagrees-with-antichains", "selections disagree on repository automata");
	}
	if (expect.verdict == ref::Tri::UNKNOWN) ctx.tag("corpus:reference-inconclusive");
}

} // namespace

void harness::run_case(const eng::Raw& raw, eng::Ctx& ctx)
{
	if (!raw.empty() && raw[0][0] % 64 == 63) { corpus_case(raw, ctx); return; }
	const int maxStates = ctx.tier() ? 7 : 5;
	//                          indep sup abl split symmiss degen
	const std::vector<int> w = {4,    2,  4,  4,    1,      1};
	gen::NfaPairCase c = gen::decode_nfa_pair(raw, maxStates, 3, w);
	// LARGE flavour (1/16): each operand gets an extra, non-final start state heading a chain that ends in a final state
	// (lengths 10..270, so hash containers of the library get rehashed; several start states, only some of them final)
	const bool large = (c.header[0] / 64) % 16 == 7;
	if (large) {
		auto pad = [&](ref::NFA& x, int& n, uint32_t seed) {
			const int len = 10 + static_cast<int>(seed % 261);
			const int sym = static_cast<int>((seed / 512) % static_cast<uint32_t>(c.ns));
			const int first = n;
			for (int i = 0; i < len; ++i) x.edges.insert(std::make_tuple(first + i, sym, first + i + 1));
			x.starts.insert(first);
			x.finals.insert(first + len);
			n = first + len + 1;
		};
		pad(c.A, c.nA, c.header[6] + 13);
		pad(c.B, c.nB, c.header[6] * 7 + c.header[5]);
		if (c.header[5] % 2) c.A.finals.insert(c.A.starts.begin(), c.A.starts.end());      // A accepts the empty word
		c.numA = gen::make_numbering(c.header[4], c.nA, false);
		c.numB = gen::make_numbering(c.header[5], c.nB, false);
	}
	if (large) ctx.describe("large flavour: A " + std::to_string(c.A.states().size()) + " states, B " + std::to_string(c.B.states().size()) + " states; seeds " +
		std::to_string(c.header[4]) + "," + std::to_string(c.header[5]) + "," + std::to_string(c.header[6]) + "\nA " + c.A.str().substr(0, 300) + "\nB " + c.B.str().substr(0, 300));
	else ctx.describe(gen::describe_nfa_pair(c));
	if (large) ctx.tag("large:chains-of-10-270-states");
	ctx.tag(std::string("strategy:") + gen::nstrategy_name(c.strategy));
	ctx.small_case(!large && c.A.states().size() <= 8 && c.B.states().size() <= 8);

	ref::NfaInclResult expect = ref::nfa_included(c.A, c.B);
	if (expect.verdict == ref::Tri::UNKNOWN) { ctx.inconclusive("oracle-cap"); return; }
	if (expect.verdict == ref::Tri::NO && (!c.A.accepts(expect.witness) || c.B.accepts(expect.witness))) {
		ctx.machinery_error("reference witness does not separate the automata");
		return;
	}
	const bool want = expect.verdict == ref::Tri::YES;
	ctx.tag(want ? "verdict:included" : "verdict:not-included");
	{
		// both languages contain a word of length >= 2 and B is nondeterministic on a reached macro-state
		auto longWord = [](const ref::NFA& a) {
			std::set<int> cur = a.forward_reachable(), back = a.backward_reachable();
			for (auto& e1 : a.edges) for (auto& e2 : a.edges)
				if (std::get<2>(e1) == std::get<0>(e2) && a.starts.count(std::get<0>(e1)) && back.count(std::get<2>(e2))) return true;
			(void)cur;
			return false;
		};
		ctx.nontrivial(longWord(c.A) && longWord(c.B) && expect.b_nondet);
		if (c.A.empty_lang()) ctx.tag("A-empty");
		if (c.B.empty_lang()) ctx.tag("B-empty");
		if (expect.b_nondet) ctx.tag("B-nondeterministic-on-reached-macrostate");
	}

	ExplicitFiniteAut a, b;
	{
		eng::LibSection ls(ctx, "build");
		if (c.header[7] & 64) { a = libfa::load(c.A, c.numA); b = libfa::load(c.B, c.numB); }
		else { a = libfa::build(c.A, c.numA); b = libfa::build(c.B, c.numB); }
	}
	for (const Sel& s : SELS) {
		bool got;
		try {
			eng::LibSection ls(ctx, std::string("fa-incl:") + s.name);
			ExplicitFiniteAut sm(a), bg(b);
			VATA::AutBase::SanitizeAutsForInclusion(sm, bg);     // the CLI protocol
			got = ExplicitFiniteAut::CheckInclusion(sm, bg, param(s));
		}
		catch (const std::exception& e) {
			ctx.fail(std::string("fa-incl:") + s.name + ":exception", e.what());
			continue;
		}
		ctx.count("verdicts");
		if (got != want)
			ctx.fail(std::string("fa-incl:") + s.name + (got ? ":false-positive" : ":false-negative"),
				std::string(s.name) + " answered " + (got ? "included" : "not included") + ", reference says " +
				(want ? "included" : ("not included, witness " + ref::show_word(expect.witness))));
	}
	// the antichain selection sanitises internally: unprepared operands are legal input
	{
		bool got;
		{
			eng::LibSection ls(ctx, "fa-incl-direct:antichains");
			got = ExplicitFiniteAut::CheckInclusion(a, b, param(SELS[0]));
		}
		ctx.count("verdicts");
		if (got != want)
			ctx.fail(std::string("fa-incl-direct:antichains") + (got ? ":false-positive" : ":false-negative"),
				std::string("antichains on unprepared operands answered ") + (got ? "included" : "not included"));
		bool got2;
		{
			eng::LibSection ls(ctx, "fa-incl-default");
			got2 = ExplicitFiniteAut::CheckInclusion(a, b);
		}
		ctx.count("verdicts");
		if (got2 != want)
			ctx.fail(std::string("fa-incl-default") + (got2 ? ":false-positive" : ":false-negative"),
				std::string("default CheckInclusion answered ") + (got2 ? "included" : "not included"));
	}
}
