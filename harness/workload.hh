// C20 — mixed workload over all four encodings in one process.  Shared by the
// rapidcheck harness (forked children, phases reported to the parent), the
// structure-aware libFuzzer target and the valgrind replay runner.  Only
// memory safety / UB is judged: there is no semantic oracle here, and every
// call honours the documented preconditions (disjoint state sets for
// UnionDisjointStates, trimmed + dense input for the upward simulation, loads
// only into fresh BDD handles, simulations through the inclusion protocol).
#pragma once
#include "../engine/dump_reader.hh"
#include "../engine/gen_nfa.hh"
#include "../engine/gen_ta.hh"
#include "../engine/lib_bdd.hh"
#include "../engine/lib_explicit.hh"
#include "../engine/lib_fa.hh"

#include <vata/incl_param.hh>
#include <vata/sim_param.hh>
#include <vata/util/util.hh>

namespace wl {

struct Sink {
	virtual void begin(const std::string&) {}
	virtual void end() {}
	virtual void op(const std::string&) {}       // one executed operation kind (for the class histogram)
	virtual ~Sink() {}
};
struct Scope {
	Sink& s;
	Scope(Sink& sink, const std::string& p) : s(sink) { s.begin(p); s.op(p); }
	~Scope() { s.end(); }
};

using VATA::ExplicitTreeAut;
using VATA::ExplicitFiniteAut;
using VATA::BDDBottomUpTreeAut;
using VATA::BDDTopDownTreeAut;
using VATA::InclParam;
using StateType = VATA::AutBase::StateType;

template <class T>
struct PoolT {
	std::vector<std::unique_ptr<T>> h;
	size_t cap;
	explicit PoolT(size_t c) : cap(c) {}
	void put(T&& a, uint32_t sel)
	{
		if (h.size() < cap) h.emplace_back(new T(std::move(a)));
		else h[sel % h.size()].reset(new T(std::move(a)));
	}
	bool empty() const { return h.empty(); }
	T& at(uint32_t v) { return *h[v % h.size()]; }
	void drop(uint32_t v) { if (h.size() > 1) h.erase(h.begin() + static_cast<long>(v % h.size())); }
};

inline InclParam tree_param(unsigned k)     // the 8 implemented explicit selections
{
	InclParam ip;
	ip.SetAlgorithm(InclParam::e_algorithm::antichains);
	ip.SetDirection((k / 2) ? InclParam::e_direction::downward : InclParam::e_direction::upward);
	ip.SetUseRecursion(k / 2 >= 2);
	ip.SetUseDownwardCacheImpl(k / 2 == 3);
	ip.SetUseSimulation(k % 2);
	return ip;
}

template <class Aut>
std::set<int> dump_states(const Aut& a)
{
	return libbdd::read(a).states();
}

inline size_t count_rules(const ExplicitTreeAut& a)
{
	size_t n = 0;
	for (auto it = a.begin(); it != a.end(); ++it) ++n;
	return n;
}

// inclusion through the CLI protocol (sanitise, union, simulation, check)
inline bool explicit_inclusion(const ExplicitTreeAut& a, const ExplicitTreeAut& b, unsigned k)
{
	InclParam ip = tree_param(k);
	ExplicitTreeAut s(a), g(b);
	StateType states = VATA::AutBase::SanitizeAutsForInclusion(s, g);
	VATA::AutBase::StateDiscontBinaryRelation sim;
	if (k % 2) {
		ExplicitTreeAut u = ExplicitTreeAut::UnionDisjointStates(s, g);
		VATA::SimParam sp;
		sp.SetRelation((k / 2) ? VATA::SimParam::e_sim_relation::TA_DOWNWARD : VATA::SimParam::e_sim_relation::TA_UPWARD);
		sp.SetNumStates(states);
		sim = u.ComputeSimulation(sp);
		ip.SetSimulation(&sim);
	}
	return ExplicitTreeAut::CheckInclusion(s, g, ip);
}

inline void run(const eng::Raw& raw, Sink& sink, int tier)
{
	const eng::Rec h = raw.empty() ? eng::Rec{} : raw[0];
	const size_t body = raw.size() > 1 ? raw.size() - 1 : 0;
	const size_t k = std::min(body, static_cast<size_t>(14 + h[0] % (tier ? 40 : 26)));
	const size_t firstStep = raw.size() - k;
	gen::Limits lim;
	lim.maxStates = tier ? 4 : 3;
	lim.arity3 = false;
	std::vector<gen::TACase> autos(3);
	for (size_t t = 0; t < 3; ++t) {
		eng::Raw sub;
		eng::Rec hh = h;
		hh[1] = h[1 + t]; hh[2] = h[4]; hh[3] = h[5 + (t % 2)];
		sub.push_back(hh);
		for (size_t i = 1; i < firstStep; ++i) if ((raw[i][0] / 8) % 3 == t) sub.push_back(raw[i]);
		autos[t] = gen::decode_ta(sub, lim, false);
	}
	std::vector<ref::NFA> nfas(2);
	{
		eng::Raw sub(raw.begin(), raw.begin() + static_cast<long>(std::max<size_t>(firstStep, 1)));
		nfas[0] = ref::nfa_from_raw(sub, 4, 2, 0);
		nfas[1] = ref::nfa_from_raw(sub, 4, 2, 1);
	}

	PoolT<ExplicitTreeAut> ET(5);
	PoolT<BDDBottomUpTreeAut> BU(4);
	PoolT<BDDTopDownTreeAut> TD(4);
	PoolT<ExplicitFiniteAut> FA(4);
	VATA::Serialization::TimbukSerializer ser;
	VATA::Parsing::TimbukParser parser;
	size_t nextBase = 0;

	for (size_t si = firstStep; si < raw.size(); ++si) {
		const eng::Rec& r = raw[si];
		const uint32_t enc = r[3] % 4;
		try {
			if (enc == 0) {
				uint32_t op = r[0] % 20;
				if (ET.empty()) op = 0;
				switch (op) {
					case 0: case 1: {
						const gen::TACase& t = autos[r[1] % 3];
						gen::Numbering num = gen::make_numbering(r[2], t.n, false, (r[5] % 2) ? nextBase : 0);
						nextBase = std::max(nextBase, *std::max_element(num.tab.begin(), num.tab.end()) + 1);
						Scope sc(sink, op ? "tree:load-timbuk" : "tree:build");
						ET.put(op ? lib::load(t.A, t.order, num) : lib::build(t.A, t.order, num), r[4]);
						break;
					}
					case 2: { Scope sc(sink, "tree:copy"); ExplicitTreeAut c(ET.at(r[1])); ET.put(std::move(c), r[4]); break; }
					case 3: {
						Scope sc(sink, "tree:Union");
						VATA::AutBase::StateToStateMap m1, m2;
						ET.put(ExplicitTreeAut::Union(ET.at(r[1]), ET.at(r[2]), &m1, &m2), r[4]);
						break;
					}
					case 4: {
						ExplicitTreeAut& a = ET.at(r[1]); ExplicitTreeAut& b = ET.at(r[2]);
						if (&a == &b) break;
						bool disjoint = true;
						{ auto ua = a.GetUsedStates(); for (size_t q : b.GetUsedStates()) if (ua.count(q)) disjoint = false; }
						if (!disjoint) break;
						Scope sc(sink, "tree:UnionDisjointStates");
						ET.put(ExplicitTreeAut::UnionDisjointStates(a, b), r[4]);
						break;
					}
					case 5: {
						Scope sc(sink, "tree:Intersection");
						VATA::AutBase::ProductTranslMap pm;
						ET.put(ExplicitTreeAut::Intersection(ET.at(r[1]), ET.at(r[2]), &pm), r[4]);
						break;
					}
					case 6: { Scope sc(sink, "tree:IntersectionBU"); ET.put(ExplicitTreeAut::IntersectionBU(ET.at(r[1]), ET.at(r[2])), r[4]); break; }
					case 7: { Scope sc(sink, "tree:RemoveUnreachableStates"); ET.put(ET.at(r[1]).RemoveUnreachableStates(), r[4]); break; }
					case 8: { Scope sc(sink, "tree:RemoveUselessStates"); VATA::AutBase::StateToStateMap m; ET.put(ET.at(r[1]).RemoveUselessStates(&m), r[4]); break; }
					case 9: { if (count_rules(ET.at(r[1])) > 40) break; Scope sc(sink, "tree:Reduce"); ET.put(ET.at(r[1]).Reduce(), r[4]); break; }
					case 10: {
						ExplicitTreeAut& a = ET.at(r[1]);
						if (a.GetUsedStates().size() > 4 || count_rules(a) > 14) break;     // exponential construction
						Scope sc(sink, "tree:Complement");
						ET.put(a.Complement(), r[4]);
						break;
					}
					case 11: { Scope sc(sink, "tree:GetCandidateTree"); ET.put(ET.at(r[1]).GetCandidateTree(), r[4]); break; }
					case 12: {   // downward simulation the CLI way (dense re-indexing first)
						if (count_rules(ET.at(r[1])) > 60) break;
						Scope sc(sink, "tree:sim-down");
						VATA::AutBase::StateToStateMap m;
						StateType cnt = 0;
						VATA::AutBase::StateToStateTranslWeak tr(m, [&cnt](const StateType&) { return cnt++; });
						ExplicitTreeAut d = ET.at(r[1]).ReindexStates(tr);
						if (cnt == 0) break;
						VATA::SimParam sp; sp.SetRelation(VATA::SimParam::e_sim_relation::TA_DOWNWARD); sp.SetNumStates(cnt);
						auto rel = d.ComputeSimulation(sp);
						for (StateType q = 0; q < cnt; ++q) (void)rel.get(q, (q + 1) % cnt);
						break;
					}
					case 13: {   // upward simulation: only on the reference-trimmed, densely renumbered automaton (its contract)
						if (count_rules(ET.at(r[1])) > 60) break;
						ref::TA t = lib::read(ET.at(r[1])).trim();
						std::map<int,int> m; int i = 0;
						for (int q : t.states()) m[q] = i++;
						if (i == 0) break;
						ref::TA d = t.image(m);
						Scope sc(sink, "tree:sim-up");
						ExplicitTreeAut a = lib::build(d);
						VATA::SimParam sp; sp.SetRelation(VATA::SimParam::e_sim_relation::TA_UPWARD); sp.SetNumStates(static_cast<size_t>(i));
						auto rel = a.ComputeSimulation(sp);
						for (int q = 0; q < i; ++q) (void)rel.get(static_cast<size_t>(q), static_cast<size_t>((q + 1) % i));
						break;
					}
					case 14: case 15: {
						ExplicitTreeAut& a = ET.at(r[1]); ExplicitTreeAut& b = ET.at(r[2]);
						if (count_rules(a) > 24 || count_rules(b) > 24) break;              // keep the exponential algorithms short
						Scope sc(sink, "tree:inclusion:" + std::to_string(r[5] % 8));
						(void)explicit_inclusion(a, b, r[5] % 8);
						break;
					}
					case 16: { Scope sc(sink, "tree:IsLangEmpty"); (void)ET.at(r[1]).IsLangEmpty(); break; }
					case 17: {   // the CLI's dictionary helpers after pruning
						const gen::TACase& t1 = autos[r[1] % 3]; const gen::TACase& t2 = autos[r[2] % 3];
						Scope sc(sink, "tree:cli-named-union-product");
						VATA::AutBase::StateDict d1, d2;
						ExplicitTreeAut a, b;
						a.LoadFromString(parser, ref::to_timbuk(t1.A, "A", {}, &t1.order), d1);
						b.LoadFromString(parser, ref::to_timbuk(t2.A, "B", {}, &t2.order), d2);
						if (r[5] % 3 == 1) { a = a.RemoveUselessStates(); b = b.RemoveUselessStates(); }
						if (r[5] % 3 == 2) { a = a.RemoveUnreachableStates(); b = b.RemoveUnreachableStates(); }
						VATA::AutBase::StateToStateMap m1, m2;
						ExplicitTreeAut u = ExplicitTreeAut::Union(a, b, &m1, &m2);
						VATA::AutBase::StateDict du = VATA::Util::CreateUnionStringToStateMap(d1, d2, &m1, &m2);
						(void)u.DumpToString(ser, du);
						VATA::AutBase::ProductTranslMap pm;
						ExplicitTreeAut i = ExplicitTreeAut::Intersection(a, b, &pm);
						VATA::AutBase::StateDict di = VATA::Util::CreateProductStringToStateMap(d1, d2, pm);
						(void)i.DumpToString(ser, di);
						break;
					}
					case 18: { Scope sc(sink, "tree:dump"); (void)ET.at(r[1]).DumpToString(ser); break; }
					default: { Scope sc(sink, "tree:destroy"); ET.drop(r[1]); break; }
				}
			}
			else if (enc == 1 || enc == 2) {
				const bool td = (enc == 2);
				uint32_t op = r[0] % 13;
				if (td ? TD.empty() : BU.empty()) op = 0;
				auto load_num = [&](const gen::TACase& t) {
					gen::Numbering num = gen::make_numbering(r[2], t.n, false, (r[5] % 2) ? nextBase : 0);
					nextBase = std::max(nextBase, *std::max_element(num.tab.begin(), num.tab.end()) + 1);
					return num;
				};
				if (!td) {
					switch (op) {
						case 0: case 1: { const gen::TACase& t = autos[r[1] % 3]; gen::Numbering num = load_num(t); Scope sc(sink, "bu:load"); BU.put(libbdd::load<BDDBottomUpTreeAut>(t.A, t.order, num), r[4]); break; }
						case 2: { Scope sc(sink, "bu:copy"); BDDBottomUpTreeAut c(BU.at(r[1])); BU.put(std::move(c), r[4]); break; }
						case 3: { Scope sc(sink, "bu:Union"); VATA::AutBase::StateToStateMap m1, m2; BU.put(BDDBottomUpTreeAut::Union(BU.at(r[1]), BU.at(r[2]), &m1, &m2), r[4]); break; }
						case 4: {
							BDDBottomUpTreeAut& a = BU.at(r[1]); BDDBottomUpTreeAut& b = BU.at(r[2]);
							if (&a == &b) break;
							bool disjoint = true;
							{ auto sa = dump_states(a); for (int q : dump_states(b)) if (sa.count(q)) disjoint = false; }
							if (!disjoint) break;
							Scope sc(sink, "bu:UnionDisjointStates");
							BU.put(BDDBottomUpTreeAut::UnionDisjointStates(a, b), r[4]);
							break;
						}
						case 5: { Scope sc(sink, "bu:Intersection"); VATA::AutBase::ProductTranslMap pm; BU.put(BDDBottomUpTreeAut::Intersection(BU.at(r[1]), BU.at(r[2]), (r[5] % 2) ? &pm : nullptr), r[4]); break; }
						case 6: { Scope sc(sink, "bu:RemoveUnreachableStates"); BU.put(BU.at(r[1]).RemoveUnreachableStates(), r[4]); break; }
						case 7: { Scope sc(sink, "bu:RemoveUselessStates"); BU.put(BU.at(r[1]).RemoveUselessStates(), r[4]); break; }
						case 8: { Scope sc(sink, "bu:GetTopDownAut"); TD.put(BU.at(r[1]).GetTopDownAut(), r[4]); break; }
						case 9: {
							if (libbdd::read(BU.at(r[1])).rules.size() > 20 || libbdd::read(BU.at(r[2])).rules.size() > 20) break;
							Scope sc(sink, (r[5] % 2) ? "bu:inclusion:down-rec-sim" : "bu:inclusion:up");
							InclParam ip;
							VATA::AutBase::StateDiscontBinaryRelation dummy;
							if (r[5] % 2) { ip.SetDirection(InclParam::e_direction::downward); ip.SetUseRecursion(true); ip.SetUseSimulation(true); ip.SetSimulation(&dummy); }
							(void)BDDBottomUpTreeAut::CheckInclusion(BU.at(r[1]), BU.at(r[2]), ip);
							break;
						}
						case 10: { Scope sc(sink, "bu:dump"); (void)BU.at(r[1]).DumpToString(ser); break; }
						case 11: { Scope sc(sink, "bu:assign"); BU.at(r[2]) = BU.at(r[1]); break; }
						default: { Scope sc(sink, "bu:destroy"); BU.drop(r[1]); break; }
					}
				} else {
					switch (op) {
						case 0: case 1: { const gen::TACase& t = autos[r[1] % 3]; gen::Numbering num = load_num(t); Scope sc(sink, "td:load"); TD.put(libbdd::load<BDDTopDownTreeAut>(t.A, t.order, num), r[4]); break; }
						case 2: { Scope sc(sink, "td:copy"); BDDTopDownTreeAut c(TD.at(r[1])); TD.put(std::move(c), r[4]); break; }
						case 3: { Scope sc(sink, "td:Union"); VATA::AutBase::StateToStateMap m1, m2; TD.put(BDDTopDownTreeAut::Union(TD.at(r[1]), TD.at(r[2]), &m1, &m2), r[4]); break; }
						case 4: {
							BDDTopDownTreeAut& a = TD.at(r[1]); BDDTopDownTreeAut& b = TD.at(r[2]);
							if (&a == &b) break;
							bool disjoint = true;
							{ auto sa = dump_states(a); for (int q : dump_states(b)) if (sa.count(q)) disjoint = false; }
							if (!disjoint) break;
							Scope sc(sink, "td:UnionDisjointStates");
							TD.put(BDDTopDownTreeAut::UnionDisjointStates(a, b), r[4]);
							break;
						}
						case 5: { Scope sc(sink, "td:Intersection"); VATA::AutBase::ProductTranslMap pm; TD.put(BDDTopDownTreeAut::Intersection(TD.at(r[1]), TD.at(r[2]), (r[5] % 2) ? &pm : nullptr), r[4]); break; }
						case 6: { Scope sc(sink, "td:RemoveUnreachableStates"); TD.put(TD.at(r[1]).RemoveUnreachableStates(), r[4]); break; }
						case 7: { Scope sc(sink, "td:RemoveUselessStates"); TD.put(TD.at(r[1]).RemoveUselessStates(), r[4]); break; }
						case 8: case 9: {
							if (libbdd::read(TD.at(r[1])).rules.size() > 20 || libbdd::read(TD.at(r[2])).rules.size() > 20) break;
							Scope sc(sink, (r[5] % 2) ? "td:inclusion:down-rec-optC" : "td:inclusion:down-rec");
							InclParam ip;
							ip.SetDirection(InclParam::e_direction::downward); ip.SetUseRecursion(true); ip.SetUseDownwardCacheImpl(r[5] % 2);
							(void)BDDTopDownTreeAut::CheckInclusion(TD.at(r[1]), TD.at(r[2]), ip);
							break;
						}
						case 10: { Scope sc(sink, "td:dump"); (void)TD.at(r[1]).DumpToString(ser); break; }
						case 11: { Scope sc(sink, "td:assign"); TD.at(r[2]) = TD.at(r[1]); break; }
						default: { Scope sc(sink, "td:destroy"); TD.drop(r[1]); break; }
					}
				}
			}
			else {
				uint32_t op = r[0] % 13;
				if (FA.empty()) op = 0;
				switch (op) {
					case 0: case 1: {
						const ref::NFA& n = nfas[r[1] % 2];
						gen::Numbering num = gen::make_numbering(r[2], n.max_state() + 1, false, (r[5] % 2) ? nextBase : 0);
						if (!num.tab.empty()) nextBase = std::max(nextBase, *std::max_element(num.tab.begin(), num.tab.end()) + 1);
						Scope sc(sink, op ? "fa:load-timbuk" : "fa:build");
						FA.put(op ? libfa::load(n, num) : libfa::build(n, num), r[4]);
						break;
					}
					case 2: { Scope sc(sink, "fa:copy"); ExplicitFiniteAut c(FA.at(r[1])); FA.put(std::move(c), r[4]); break; }
					case 3: { Scope sc(sink, "fa:Union"); VATA::AutBase::StateToStateMap m1, m2; FA.put(ExplicitFiniteAut::Union(FA.at(r[1]), FA.at(r[2]), &m1, &m2), r[4]); break; }
					case 4: {
						ExplicitFiniteAut& a = FA.at(r[1]); ExplicitFiniteAut& b = FA.at(r[2]);
						if (&a == &b) break;
						bool disjoint = true;
						{ auto sa = libfa::read(a).states(); for (int q : libfa::read(b).states()) if (sa.count(q)) disjoint = false; }
						if (!disjoint) break;
						Scope sc(sink, "fa:UnionDisjointStates");
						FA.put(ExplicitFiniteAut::UnionDisjointStates(a, b), r[4]);
						break;
					}
					case 5: { Scope sc(sink, "fa:Intersection"); VATA::AutBase::ProductTranslMap pm; FA.put(ExplicitFiniteAut::Intersection(FA.at(r[1]), FA.at(r[2]), &pm), r[4]); break; }
					case 6: { Scope sc(sink, "fa:Reverse"); FA.put(FA.at(r[1]).Reverse(), r[4]); break; }
					case 7: { Scope sc(sink, "fa:RemoveUnreachableStates"); FA.put(FA.at(r[1]).RemoveUnreachableStates(), r[4]); break; }
					case 8: { Scope sc(sink, "fa:RemoveUselessStates"); FA.put(FA.at(r[1]).RemoveUselessStates(), r[4]); break; }
					case 9: { Scope sc(sink, "fa:GetCandidateTree"); FA.put(FA.at(r[1]).GetCandidateTree(), r[4]); break; }
					case 10: {
						if (libfa::read(FA.at(r[1])).edges.size() > 24 || libfa::read(FA.at(r[2])).edges.size() > 24) break;
						Scope sc(sink, "fa:inclusion:" + std::to_string(r[5] % 3));
						InclParam ip;
						ip.SetAlgorithm((r[5] % 3) ? InclParam::e_algorithm::congruences : InclParam::e_algorithm::antichains);
						ip.SetSearchOrder((r[5] % 3 == 2) ? InclParam::e_search_order::breadth : InclParam::e_search_order::depth);
						ExplicitFiniteAut s(FA.at(r[1])), g(FA.at(r[2]));
						VATA::AutBase::SanitizeAutsForInclusion(s, g);
						(void)ExplicitFiniteAut::CheckInclusion(s, g, ip);
						break;
					}
					case 11: { Scope sc(sink, "fa:dump"); (void)FA.at(r[1]).DumpToString(ser); break; }
					default: { Scope sc(sink, "fa:destroy"); FA.drop(r[1]); break; }
				}
			}
		}
		catch (const std::exception&) {
			// an exception is a clean rejection, not a memory error
			sink.op("exception");
		}
	}
	{
		Scope sc(sink, "destroy-all");
		ET.h.clear(); BU.h.clear(); TD.h.clear(); FA.h.clear();
	}
}

} // namespace wl
