// C12 — rule container, iterators and lookups reflect exactly the rules added
#include "../engine/ctx.hh"
#include "../engine/gen_ta.hh"
#include <vata/explicit_tree_aut.hh>
#include <memory>

const char* const harness::ID = "C12";

using VATA::ExplicitTreeAut;
using StateType = VATA::AutBase::StateType;

namespace {

struct MRule {
	size_t sym; std::vector<StateType> ch; StateType par;
	bool operator<(const MRule& o) const
	{
		if (par != o.par) return par < o.par;
		if (sym != o.sym) return sym < o.sym;
		return ch < o.ch;
	}
	std::string str() const
	{
		std::string s = "s" + std::to_string(sym) + "(";
		for (size_t i = 0; i < ch.size(); ++i) s += (i ? "," : "") + std::to_string(ch[i]);
		return s + ")->" + std::to_string(par);
	}
};

const StateType POOL[] = {0, 1, 2, 7, 1000};   // state pool (5 states, one far away)

MRule from(const ExplicitTreeAut::Transition& t)
{
	return MRule{t.GetSymbol(), t.GetChildren(), t.GetParent()};
}

// multiset read of a range
template <class Range>
std::map<MRule,int> read_range(const Range& r)
{
	std::map<MRule,int> m;
	for (auto it = r.begin(); it != r.end(); ++it) ++m[from(*it)];
	return m;
}

std::string diff(const std::map<MRule,int>& got, const std::set<MRule>& want)
{
	for (auto& kv : got) {
		if (!want.count(kv.first)) return "yields " + kv.first.str() + " which was not added";
		if (kv.second != 1) return "yields " + kv.first.str() + " " + std::to_string(kv.second) + " times";
	}
	for (auto& r : want) if (!got.count(r)) return "does not yield " + r.str();
	return "";
}

} // namespace

void harness::run_case(const eng::Raw& raw, eng::Ctx& ctx)
{
	std::set<MRule> model;
	std::set<StateType> finals;
	std::ostringstream log;
	// the plan is a pure function of the raw data: describe it before touching the library
	struct Step { int op; MRule r; std::set<StateType> fs; };
	std::vector<Step> plan;
	for (size_t i = 0; i < raw.size(); ++i) {
		const eng::Rec& r = raw[i];
		Step s;
		const uint32_t k = r[0] % 16;
		s.op = (k < 9) ? 0 : (k < 11) ? 1 : (k < 12) ? 2 : (k < 13) ? 3 : (k < 14) ? 4 : 5;   // add, final, finals, erase, clear, re-add
		s.r.sym = r[1] % 4;
		s.r.par = POOL[r[2] % 5];
		const uint32_t ar = r[3] % 4;
		for (uint32_t a = 0; a < ar; ++a) s.r.ch.push_back(POOL[r[4 + a] % 5]);
		for (int b = 0; b < 5; ++b) if ((r[7] >> b) & 1) s.fs.insert(POOL[b]);
		plan.push_back(s);
	}
	{
		std::ostringstream d;
		for (auto& s : plan) {
			switch (s.op) {
				case 0: d << "add " << s.r.str() << "; "; break;
				case 1: d << "final " << s.r.par << "; "; break;
				case 2: d << "finals{"; for (auto f : s.fs) d << f << " "; d << "}; "; break;
				case 3: d << "erase-finals; "; break;
				case 4: d << "clear; "; break;
				case 5: d << "re-add-existing; "; break;
			}
		}
		ctx.describe(d.str());
	}
	ctx.small_case(true);

	ExplicitTreeAut aut;
	// a reader keeps snapshots (copies) of the automaton alive along the history: the automaton under test then shares
	// structure with them, which must not change what the five mutating calls do to it - nor the snapshots
	std::unique_ptr<ExplicitTreeAut> snapshot;
	std::set<MRule> snapModel;
	std::set<StateType> snapFinals;
	bool sawSnapshotWrite = false;
	bool sawClearAfterAdd = false, sawDuplicate = false, sawEraseAfterAdd = false;
	int stepNo = 0;
	for (auto& s : plan) {
		++stepNo;
		if (s.fs.size() % 3 == 1 && (raw.empty() || raw[0][7] % 2)) {
			eng::LibSection ls(ctx, "snapshot");
			snapshot.reset(new ExplicitTreeAut(aut));
			snapModel = model; snapFinals = finals;
		}
		if (snapshot && s.op == 0) sawSnapshotWrite = true;
		{
			eng::LibSection ls(ctx, "mutate");
			switch (s.op) {
				case 0:
					if (model.count(s.r)) sawDuplicate = true;
					aut.AddTransition(s.r.ch, s.r.sym, s.r.par);
					model.insert(s.r);
					break;
				case 1: aut.SetStateFinal(s.r.par); finals.insert(s.r.par); break;
				case 2: aut.SetStatesFinal(std::set<StateType>(s.fs.begin(), s.fs.end())); finals.insert(s.fs.begin(), s.fs.end()); break;
				case 3: if (!model.empty()) sawEraseAfterAdd = true; aut.EraseFinalStates(); finals.clear(); break;
				case 4: if (!model.empty()) sawClearAfterAdd = true; aut.Clear(); model.clear(); finals.clear(); break;
				case 5:
					if (!model.empty()) {
						auto it = model.begin();
						std::advance(it, static_cast<long>(s.r.sym * 7 + s.r.ch.size()) % static_cast<long>(model.size()));
						sawDuplicate = true;
						if (s.r.par % 2) aut.AddTransition(ExplicitTreeAut::Transition(it->par, it->sym, it->ch));
						else aut.AddTransition(it->ch, it->sym, it->par);
					}
					break;
			}
		}
		const std::string at = "after step " + std::to_string(stepNo) + ": ";
		eng::LibSection ls(ctx, "read-views");
		// iteration
		{
			std::string d = diff(read_range(aut), model);
			if (!d.empty()) { ctx.fail("container:iteration", at + "iteration " + d); return; }
		}
		// ContainsTransition: every model rule, and a sample of absent rules
		for (auto& r : model) {
			if (!aut.ContainsTransition(r.ch, r.sym, r.par) || !aut.ContainsTransition(ExplicitTreeAut::Transition(r.par, r.sym, r.ch))) {
				ctx.fail("container:contains:false-negative", at + "ContainsTransition is false for " + r.str()); return;
			}
		}
		{
			std::vector<MRule> probes;
			MRule p = s.r;
			probes.push_back(p);
			p.par = POOL[(s.r.par + 1) % 5]; probes.push_back(p);                  // other parent
			p = s.r; p.sym = (p.sym + 1) % 4; probes.push_back(p);                 // other symbol
			p = s.r; p.ch.push_back(POOL[0]); probes.push_back(p);                 // other arity (longer)
			p = s.r; if (!p.ch.empty()) { p.ch.pop_back(); probes.push_back(p); }  // other arity (shorter)
			p = s.r; if (!p.ch.empty()) { p.ch[0] = POOL[(s.r.par + 2) % 5] == p.ch[0] ? POOL[(s.r.par + 3) % 5] : POOL[(s.r.par + 2) % 5]; probes.push_back(p); }
			p = s.r; p.par = 4242; probes.push_back(p);                            // unknown parent
			for (auto& q : probes) {
				const bool want = model.count(q) > 0;
				if (aut.ContainsTransition(q.ch, q.sym, q.par) != want) {
					ctx.fail(want ? "container:contains:false-negative" : "container:contains:false-positive",
						at + "ContainsTransition(" + q.str() + ") must be " + (want ? "true" : "false")); return;
				}
			}
		}
		// GetAcceptTrans
		{
			std::set<MRule> want;
			for (auto& r : model) if (finals.count(r.par)) want.insert(r);
			ExplicitTreeAut::AcceptTrans acc = aut.GetAcceptTrans();
			std::string d = diff(read_range(acc), want);
			if (!d.empty()) { ctx.fail("container:accept-trans", at + "GetAcceptTrans " + d); return; }
		}
		// indexing by state (all pool states + one unknown)
		for (StateType q : {POOL[0], POOL[1], POOL[2], POOL[3], POOL[4], static_cast<StateType>(55)}) {
			std::set<MRule> want;
			for (auto& r : model) if (r.par == q) want.insert(r);
			ExplicitTreeAut::DownAccessor da = aut[q];
			std::string d = diff(read_range(da), want);
			if (!d.empty()) { ctx.fail("container:down-accessor", at + "aut[" + std::to_string(q) + "] " + d); return; }
			if (da.empty() != want.empty()) { ctx.fail("container:down-accessor-empty", at + "aut[" + std::to_string(q) + "].empty() is wrong"); return; }
		}
		// used / final states, emptiness
		{
			std::set<StateType> used(finals);
			for (auto& r : model) { used.insert(r.par); used.insert(r.ch.begin(), r.ch.end()); }
			std::unordered_set<size_t> got = aut.GetUsedStates();
			if (std::set<StateType>(got.begin(), got.end()) != used) { ctx.fail("container:used-states", at + "GetUsedStates differs from the states occurring in rules or the final set"); return; }
			const auto& fs = aut.GetFinalStates();
			if (std::set<StateType>(fs.begin(), fs.end()) != finals) { ctx.fail("container:final-states", at + "GetFinalStates differs"); return; }
			for (StateType q : POOL) if (aut.IsStateFinal(q) != (finals.count(q) > 0)) { ctx.fail("container:is-final", at + "IsStateFinal(" + std::to_string(q) + ") is wrong"); return; }
			if (aut.AreTransitionsEmpty() != model.empty()) { ctx.fail("container:transitions-empty", at + "AreTransitionsEmpty is wrong"); return; }
		}
		if (snapshot) {
			std::string d = diff(read_range(*snapshot), snapModel);
			if (!d.empty()) { ctx.fail("container:snapshot-changed", at + "a copy taken earlier " + d); return; }
			const auto& fs = snapshot->GetFinalStates();
			if (std::set<StateType>(fs.begin(), fs.end()) != snapFinals) { ctx.fail("container:snapshot-changed", at + "final states of a copy taken earlier changed"); return; }
		}
		ctx.count("steps_checked");
	}
	if (sawSnapshotWrite) ctx.tag("write-while-a-snapshot-is-alive");
	ctx.nontrivial((sawClearAfterAdd || sawEraseAfterAdd) && sawDuplicate);
	if (sawClearAfterAdd) ctx.tag("clear-after-add");
	if (sawEraseAfterAdd) ctx.tag("erase-finals-after-add");
	if (sawDuplicate) ctx.tag("duplicate-add");
}
