// C20 — operations on well-formed automata have no memory errors or undefined behaviour
// (a) workload generator: mixed histories over all four encodings, judged by ASan/UBSan only.
#include "../engine/ctx.hh"
#include "workload.hh"

const char* const harness::ID = "C20";

namespace {
struct CtxSink : public wl::Sink {
	eng::Ctx& ctx;
	std::set<std::string> kinds;
	std::set<std::string> encodings;
	bool bddProduct = false, simIncl = false;
	explicit CtxSink(eng::Ctx& c) : ctx(c) {}
	void begin(const std::string& p) override { ctx.lib_begin(p); }
	void end() override { ctx.lib_end(); }
	void op(const std::string& p) override
	{
		kinds.insert(p);
		encodings.insert(p.substr(0, p.find(':')));
		if (p == "bu:Intersection" || p == "td:Intersection") bddProduct = true;
		if (p.compare(0, 15, "tree:inclusion:") == 0 && (p.back() - '0') % 2 == 1) simIncl = true;
		if (p == "bu:inclusion:down-rec-sim") simIncl = true;
	}
};
}

void harness::run_case(const eng::Raw& raw, eng::Ctx& ctx)
{
	std::ostringstream d;
	d << "workload of " << raw.size() << " records; steps (encoding:op):";
	for (size_t i = 1; i < raw.size(); ++i) d << " " << raw[i][3] % 4 << ":" << raw[i][0] % 20;
	ctx.describe(d.str());
	ctx.small_case(false);           // hangs are not this property's business
	CtxSink sink(ctx);
	wl::run(raw, sink, ctx.tier());
	sink.encodings.erase("destroy-all"); sink.encodings.erase("exception");
	ctx.nontrivial(sink.kinds.size() >= 6 && sink.encodings.size() >= 2 && sink.bddProduct && sink.simIncl);
	for (auto& k : sink.kinds) ctx.tag("op:" + k.substr(0, k.find(':', 5) == std::string::npos ? k.size() : k.find(':', 5)));
	ctx.count("operations", static_cast<long>(sink.kinds.size()));
}
