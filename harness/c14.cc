// C14 — renaming states or symbols yields exactly the image automaton
#include "tree_common.hh"

const char* const harness::ID = "C14";

using VATA::ExplicitTreeAut;
using StateType = VATA::AutBase::StateType;

namespace {

struct MapF : public VATA::AbstractReindexF {
	std::map<StateType, StateType> m;
	virtual StateType operator[](const StateType& s) override { return m.at(s); }
	virtual StateType at(const StateType& s) const override { return m.at(s); }
};

struct SymF : public ExplicitTreeAut::AbstractSymbolTranslateF {
	std::map<lib::SymbolType, lib::SymbolType> m;
	virtual lib::SymbolType operator()(const lib::SymbolType& s) override { return m.at(s); }
};

void expect_exact(eng::Ctx& ctx, const std::string& sig, const ref::TA& got, const ref::TA& want, const std::string& what)
{
	ctx.count("images_compared");
	if (got == want) return;
	std::string d;
	for (auto& r : want.rules) if (!got.rules.count(r)) { d = "missing rule of the image"; break; }
	if (d.empty()) for (auto& r : got.rules) if (!want.rules.count(r)) { d = "rule that is not an image"; break; }
	if (d.empty()) d = "final states differ";
	ctx.fail(sig + (d[0] == 'm' ? ":missing" : (d[0] == 'r' ? ":extra" : ":finals")), what + ": " + d + "; got " + got.str() + " want " + want.str());
}

} // namespace

void harness::run_case(const eng::Raw& raw, eng::Ctx& ctx)
{
	gen::Limits lim;
	lim.overload = true;
	lim.maxStates = ctx.tier() ? 8 : 6;
	lim.arity3 = true;
	gen::TACase c = gen::decode_ta(raw, lim, false);
	const std::string largeTag = gen::enlarge(c, false, 64);
	if (!largeTag.empty()) ctx.tag(largeTag);
	const ref::TA V = tc::lib_view(c.A, c.num);
	const std::set<int> st = V.states();

	// the state map (total on the used states)
	const uint32_t kind = c.header[0] % 4;
	std::map<int,int> h;
	{
		int i = 0;
		const int k = 1 + static_cast<int>(c.header[5] % 3);   // merge classes
		for (int q : st) {
			switch (kind) {
				case 0: h[q] = q; break;
				case 1: h[q] = static_cast<int>(gen::make_numbering(c.header[5], static_cast<int>(st.size()), true)(i)) + 3; break;
				case 2: h[q] = static_cast<int>(gen::mix(c.header[5], static_cast<uint64_t>(q)) % static_cast<uint64_t>(k)) + 10 * (i % 2 == 0 && c.header[6] % 2 ? 1 : 0); break;
				case 3: h[q] = 1000 + 37 * i + static_cast<int>(gen::mix(c.header[5], static_cast<uint64_t>(i)) % 30); break;
			}
			++i;
		}
	}
	std::string hs;
	for (auto& kv : h) hs += " " + std::to_string(kv.first) + "->" + std::to_string(kv.second);
	static const char* kinds[] = {"identity", "injective", "merging", "sparse"};
	ctx.describe(std::string("state map (") + kinds[kind] + "):" + hs + "\n" + gen::describe_ta(c));
	ctx.small_case(largeTag.empty());
	ctx.tag(std::string("map:") + kinds[kind]);

	bool injective = true;
	{
		std::set<int> vals;
		for (auto& kv : h) if (!vals.insert(kv.second).second) injective = false;
	}
	// non-trivial: >= 2 states owning rules for the same symbol are merged
	bool mergedSameSymbol = false;
	for (auto& r1 : V.rules) for (auto& r2 : V.rules)
		if (r1.par != r2.par && r1.sym == r2.sym && h[r1.par] == h[r2.par]) mergedSameSymbol = true;
	ctx.nontrivial(mergedSameSymbol || (injective && kind != 0 && tc::has_deep_run(V)));
	if (mergedSameSymbol) ctx.tag("merges-owners-of-same-symbol");

	const ref::TA want = V.image(h);
	MapF f;
	for (auto& kv : h) f.m[static_cast<StateType>(kv.first)] = static_cast<StateType>(kv.second);

	// half of the inputs live over their OWN alphabet (symbol numbers differ from the process-wide default alphabet):
	// the value-returning entry points hand the alphabet on, so their results are read through their own alphabet;
	// the dst overloads copy symbol numbers into an automaton of the caller, which is read through the input's alphabet
	const bool ownAlphabet = (c.header[7] / 4) % 2;
	ExplicitTreeAut a;
	{
		eng::LibSection ls(ctx, "build");
		if (ownAlphabet) { lib::Alphabet al = lib::private_alphabet(c.syms, c.header[7]); a.SetAlphabet(al); }
		lib::fill(a, c.A, c.order, c.num);
	}
	if (ownAlphabet) ctx.tag("input-over-its-own-alphabet");
	const lib::Alphabet inAlpha = a.GetAlphabet();

	// (a) functor, returning
	{
		ExplicitTreeAut r;
		{ eng::LibSection ls(ctx, "ReindexStates(fctor)"); r = a.ReindexStates(f); }
		expect_exact(ctx, "reindex-fctor", lib::read(r), want, "ReindexStates(functor)");
		ExplicitTreeAut r2;
		{ eng::LibSection ls(ctx, "ReindexStates(fctor,nofinal)"); r2 = a.ReindexStates(f, false); }
		ref::TA w2 = want; w2.finals.clear();
		expect_exact(ctx, "reindex-fctor-nofinal", lib::read(r2), w2, "ReindexStates(functor, addFinalStates=false)");
	}
	// (b) into dst: empty and non-empty
	{
		ExplicitTreeAut dst;
		{ eng::LibSection ls(ctx, "ReindexStates(dst-empty)"); a.ReindexStates(dst, f); }
		expect_exact(ctx, "reindex-dst-empty", lib::read(dst, inAlpha), want, "ReindexStates into an empty automaton");

		// non-empty destination: a sub-automaton of the image plus foreign rules
		ref::TA D;
		{
			size_t i = 0;
			for (auto& r : want.rules) if ((c.header[6] >> (i++ % 16)) & 1) D.rules.insert(r);
			D.add(c.syms[0], {}, 7);
			D.finals.insert(7);
		}
		ExplicitTreeAut dst2;
		{
			eng::LibSection ls(ctx, "ReindexStates(dst-nonempty)");
			lib::Alphabet al = inAlpha;
			dst2.SetAlphabet(al);       // a destination of the caller lives over the same alphabet as the source
			lib::fill(dst2, D, std::vector<ref::Rule>(D.rules.begin(), D.rules.end()), lib::identity_numbering(D.max_state() + 1));
			a.ReindexStates(dst2, f, (c.header[6] >> 16) % 2 == 0);
		}
		ref::TA w = D;
		w.rules.insert(want.rules.begin(), want.rules.end());
		if ((c.header[6] >> 16) % 2 == 0) w.finals.insert(want.finals.begin(), want.finals.end());
		expect_exact(ctx, "reindex-dst-nonempty", lib::read(dst2), w, "ReindexStates into a non-empty automaton");
	}
	// (c) weak translator: empty map with a counter, and pre-filled with h
	{
		VATA::AutBase::StateToStateMap m;
		StateType cnt = (c.header[6] >> 8) % 5;
		VATA::AutBase::StateToStateTranslWeak tr(m, [&cnt](const StateType&) { return cnt++; });
		ExplicitTreeAut r;
		{ eng::LibSection ls(ctx, "ReindexStates(weak)"); r = a.ReindexStates(tr); }
		std::map<int,int> hm;
		for (auto& kv : m) hm[static_cast<int>(kv.first)] = static_cast<int>(kv.second);
		bool total = true;
		for (int q : st) if (!hm.count(q)) total = false;
		if (!total) ctx.fail("reindex-weak:map-incomplete", "the translator does not contain every used state afterwards");
		else expect_exact(ctx, "reindex-weak", lib::read(r), V.image(hm), "ReindexStates(weak translator)");

		// the SAME translator object used again after its map was changed from outside (what SanitizeAutsForInclusion
		// does with one translator for its two operands): the second result is the image under the map as it is then
		if (total && (c.header[6] >> 12) % 2) {
			const bool cleared = (c.header[6] >> 13) % 2;
			if (cleared) m.clear();
			else { StateType bump = 50000; for (auto& kv : m) kv.second = bump++; }     // every entry overwritten (still injective)
			ExplicitTreeAut r3;
			{ eng::LibSection ls(ctx, "ReindexStates(weak-reused)"); r3 = a.ReindexStates(tr); }
			std::map<int,int> hm3;
			for (auto& kv : m) hm3[static_cast<int>(kv.first)] = static_cast<int>(kv.second);
			bool total3 = true;
			for (int q : st) if (!hm3.count(q)) total3 = false;
			if (!total3) ctx.fail("reindex-weak-reused:map-incomplete", "after the second call with the same translator the map lacks a used state");
			else expect_exact(ctx, "reindex-weak-reused", lib::read(r3), V.image(hm3), cleared ? "ReindexStates(translator re-used after its map was cleared)" : "ReindexStates(translator re-used after its map was overwritten)");
			ctx.count("translator_reused");
		}

		VATA::AutBase::StateToStateMap m2;
		for (auto& kv : h) m2[static_cast<StateType>(kv.first)] = static_cast<StateType>(kv.second);
		StateType cnt2 = 900000;
		VATA::AutBase::StateToStateTranslWeak tr2(m2, [&cnt2](const StateType&) { return cnt2++; });
		ExplicitTreeAut r2;
		{ eng::LibSection ls(ctx, "ReindexStates(weak-prefilled)"); r2 = a.ReindexStates(tr2); }
		expect_exact(ctx, "reindex-weak-prefilled", lib::read(r2), want, "ReindexStates(pre-filled weak translator)");
	}
	// (d) CollapseStates
	{
		VATA::AutBase::StateToStateMap m;
		for (auto& kv : h) m[static_cast<StateType>(kv.first)] = static_cast<StateType>(kv.second);
		ExplicitTreeAut r;
		{ eng::LibSection ls(ctx, "CollapseStates"); r = a.CollapseStates(m); }
		const ref::TA R = lib::read(r);
		expect_exact(ctx, "collapse", R, want, "CollapseStates");
		// consequences stated by the property
		if (injective) {
			if (R.states().size() != st.size() || R.rules.size() != V.rules.size())
				ctx.fail("collapse:injective-counts", "injective renaming changed the number of states or rules");
			tc::expect_equiv(ctx, "collapse:injective-language", R, V, "injective renaming");
		} else {
			ref::InclResult ir = ref::included(V, R, tc::cap(ctx));
			if (ir.verdict == ref::Tri::NO) ctx.fail("collapse:merging-lost-tree", "merging lost " + ref::show(ir.witness));
		}
	}
	// (e) TranslateSymbols: arity-preserving symbol map (possibly merging)
	{
		ExplicitTreeAut::AlphabetType alpha = a.GetAlphabet();
		std::map<int,int> sm;
		SymF sf;
		std::vector<int> syms(c.syms);
		for (size_t i = 0; i < syms.size(); ++i) {
			std::vector<int> same;
			for (int s2 : syms) if (ref::arity(s2) == ref::arity(syms[i])) same.push_back(s2);
			sm[syms[i]] = same[gen::mix(c.header[7], i) % same.size()];
		}
		ExplicitTreeAut r;
		{
			eng::LibSection ls(ctx, "TranslateSymbols");
			for (auto& kv : sm) sf.m[lib::sym_to_lib(alpha, kv.first)] = lib::sym_to_lib(alpha, kv.second);
			r = a.TranslateSymbols(sf);
		}
		ref::TA w;
		w.finals = V.finals;
		for (auto& rule : V.rules) w.rules.insert(ref::Rule{sm[rule.sym], rule.ch, rule.par});
		expect_exact(ctx, "translate-symbols", lib::read(r), w, "TranslateSymbols");
	}
	tc::expect_unchanged(ctx, "rename", a, V);
}
