// C15 — the witness automaton is a sub-language, empty only for an empty language
#include "tree_common.hh"

const char* const harness::ID = "C15";

void harness::run_case(const eng::Raw& raw, eng::Ctx& ctx)
{
	gen::Limits lim;
	lim.maxStates = ctx.tier() ? 8 : 6;
	lim.arity3 = true;
	gen::TACase c = gen::decode_ta(raw, lim, false);
	const uint32_t flavour = c.header[0] % 5;
	int n = c.n;
	if (flavour == 1 || flavour == 2) {
		// the only accepted trees are deep: a chain of unary/binary rules above the generated part
		const int len = 2 + static_cast<int>(c.header[5] % 4);
		std::set<int> oldFinals = c.A.finals;
		c.A.finals.clear();
		int prev = -1;
		for (int i = 0; i < len; ++i) {
			const int q = n++;
			if (i == 0) {
				if (oldFinals.empty() || flavour == 2) c.A.add(c.syms[0], {}, q);
				for (int f : oldFinals) c.A.add(4 /* g */, {f}, q);
			}
			else if ((c.header[6] >> i) & 1) c.A.add(6 /* f */, {prev, prev}, q);
			else c.A.add(4 /* g */, {prev}, q);
			prev = q;
		}
		c.A.finals.insert(prev);
	}
	if (flavour == 3) {        // an unproductive final state next to the generated ones
		c.A.finals.insert(n);
		c.A.add(4, {n}, n);
		n += 1;
	}
	if (flavour == 4) {        // leaves only
		ref::TA L;
		for (auto& r : c.A.rules) if (r.ch.empty()) L.rules.insert(r);
		L.finals = c.A.finals;
		c.A = L;
	}
	c.n = n;
	c.num = gen::make_numbering(c.header[3], c.n, false);
	c.order = gen::shuffled(c.A.rules, c.header[4]);
	ctx.describe("flavour " + std::to_string(flavour) + "\n" + gen::describe_ta(c));
	ctx.small_case(true);

	const ref::TA V = tc::lib_view(c.A, c.num);
	// depth of the shallowest accepted tree
	int minDepth = 0;
	{
		ref::InclResult r = ref::included(V, ref::TA(), tc::cap(ctx));
		if (r.verdict == ref::Tri::NO) minDepth = ref::depth(r.witness);   // BFS order: a shallow witness, not necessarily minimal
	}
	bool unproductiveFinal = false;
	{
		auto p = V.productive();
		for (int f : V.finals) if (!p.count(f)) unproductiveFinal = true;
	}
	ctx.nontrivial(!V.empty_lang() && (minDepth >= 3 || unproductiveFinal));
	if (V.empty_lang()) ctx.tag("empty-language");
	if (minDepth >= 3) ctx.tag("deep-witness");
	if (unproductiveFinal) ctx.tag("unproductive-final");

	VATA::ExplicitTreeAut a, w;
	{ eng::LibSection ls(ctx, "build"); a = lib::build(c.A, c.order, c.num); }
	{ eng::LibSection ls(ctx, "GetCandidateTree"); w = a.GetCandidateTree(); }
	const ref::TA W = lib::read(w);
	ref::InclResult r = ref::included(W, V, tc::cap(ctx));
	if (r.verdict == ref::Tri::NO)
		ctx.fail("witness:not-sublanguage", "witness automaton accepts " + ref::show(r.witness) + " which the automaton rejects; A = " + V.str() + " witness = " + W.str());
	else if (r.verdict == ref::Tri::UNKNOWN) ctx.inconclusive("oracle-cap");
	if (W.empty_lang() && !V.empty_lang())
		ctx.fail("witness:empty", "witness automaton is empty although the language is not; A = " + V.str() + " witness = " + W.str());
	ctx.count("witnesses_checked");
	tc::expect_unchanged(ctx, "witness", a, V);
}
