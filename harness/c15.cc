// C15 — the witness automaton is a sub-language, empty only for an empty language
#include "tree_common.hh"

const char* const harness::ID = "C15";

void harness::run_case(const eng::Raw& raw, eng::Ctx& ctx)
{
	gen::Limits lim;
	lim.overload = true;
	lim.maxStates = ctx.tier() ? 8 : 6;
	lim.arity3 = true;
	gen::TACase c = gen::decode_ta(raw, lim, false);
	const std::string largeTag = gen::enlarge(c, false);
	if (!largeTag.empty()) ctx.tag(largeTag);
	const uint32_t flavour = c.header[0] % 5;
	int n = c.n;
	if (flavour == 1 || flavour == 2) {
		// the only accepted trees are deep: a chain of unary/binary rules above the generated part
		const int len = 2 + static_cast<int>(c.header[5] % 4);
		std::set<int> oldFinals = c.A.finals;
		c.A.finals.clear();
		int prev = -1;
		for (int i = 0; i < len; ++i) {
			const int q = n++;
			if (i == 0) {
				if (oldFinals.empty() || flavour == 2) c.A.add(c.syms[0], {}, q);
				for (int f : oldFinals) c.A.add(4 /* g */, {f}, q);
			}
			else if ((c.header[6] >> i) & 1) c.A.add(6 /* f */, {prev, prev}, q);
			else c.A.add(4 /* g */, {prev}, q);
			prev = q;
		}
		c.A.finals.insert(prev);
	}
	if (flavour == 3) {        // an unproductive final state next to the generated ones
		c.A.finals.insert(n);
		c.A.add(4, {n}, n);
		n += 1;
	}
	if (flavour == 4) {        // leaves only
		ref::TA L;
		for (auto& r : c.A.rules) if (r.ch.empty()) L.rules.insert(r);
		L.finals = c.A.finals;
		c.A = L;
	}
	c.n = n;
	c.num = gen::make_numbering(c.header[3], c.n, false);
	c.order = gen::shuffled(c.A.rules, c.header[4]);
	ctx.describe("flavour " + std::to_string(flavour) + "\n" + gen::describe_ta(c));
	ctx.small_case(largeTag.empty());

	const ref::TA V = tc::lib_view(c.A, c.num);
	// depth of the shallowest accepted tree
	int minDepth = 0;
	{
		ref::InclResult r = ref::included(V, ref::TA(), tc::cap(ctx));
		if (r.verdict == ref::Tri::NO) minDepth = ref::depth(r.witness);   // BFS order: a shallow witness, not necessarily minimal
	}
	bool unproductiveFinal = false;
	{
		auto p = V.productive();
		for (int f : V.finals) if (!p.count(f)) unproductiveFinal = true;
	}
	ctx.nontrivial(!V.empty_lang() && (minDepth >= 3 || unproductiveFinal));
	if (V.empty_lang()) ctx.tag("empty-language");
	if (minDepth >= 3) ctx.tag("deep-witness");
	if (unproductiveFinal) ctx.tag("unproductive-final");

	VATA::ExplicitTreeAut a, w;
	{ eng::LibSection ls(ctx, "build"); a = lib::build(c.A, c.order, c.num); }
	{ eng::LibSection ls(ctx, "GetCandidateTree"); w = a.GetCandidateTree(); }
	const ref::TA W = lib::read(w);
	ref::InclResult r = ref::included(W, V, tc::cap(ctx));
	if (r.verdict == ref::Tri::NO)
		ctx.fail("witness:not-sublanguage", "witness automaton accepts " + ref::show(r.witness) + " which the automaton rejects; A = " + V.str() + " witness = " + W.str());
	else if (r.verdict == ref::Tri::UNKNOWN) ctx.inconclusive("oracle-cap");
	if (W.empty_lang() && !V.empty_lang())
		ctx.fail("witness:empty", "witness automaton is empty although the language is not; A = " + V.str() + " witness = " + W.str());
	ctx.count("witnesses_checked");
	tc::expect_unchanged(ctx, "witness", a, V);

	// --- along a short history on ONE object: the witness must belong to the CURRENT value, whatever was asked before
	{
		ref::TA cur = V;
		VATA::ExplicitTreeAut x;
		{ eng::LibSection ls(ctx, "history:copy"); x = a; }
		// another automaton: one more accepted leaf and other final states
		ref::TA other = V;
		other.finals.clear();
		for (int q : V.states()) if (gen::mix(c.header[6], static_cast<uint64_t>(q) + 9) % 2) other.finals.insert(q);
		other.add(1 /* b */, {}, other.finals.empty() ? 0 : *other.finals.begin());
		if (other.finals.empty()) other.finals.insert(0);
		VATA::ExplicitTreeAut y;
		{ eng::LibSection ls(ctx, "history:build-other"); y = lib::build(other); }
		for (int stepNo = 0; stepNo < 6; ++stepNo) {
			const uint32_t op = static_cast<uint32_t>(gen::mix(c.header[5], static_cast<uint64_t>(stepNo) + 40) % 7);
			const char* names[] = {"query-only", "copy-assign-other", "copy-assign-original", "SetStateFinal", "EraseFinalStates", "AddTransition-leaf", "move-assign-other"};
			{
				eng::LibSection ls(ctx, std::string("history:") + names[op]);
				switch (op) {
					case 1: x = y; cur = other; break;
					case 2: x = a; cur = V; break;
					case 3: { auto p = cur.productive(); int q = p.empty() ? 0 : *p.rbegin(); x.SetStateFinal(static_cast<size_t>(q)); cur.finals.insert(q); break; }
					case 4: x.EraseFinalStates(); cur.finals.clear(); break;
					case 5: { int q = cur.finals.empty() ? 1 : *cur.finals.begin(); x.AddTransition({}, lib::sym_to_lib(x.GetAlphabet(), 2 /* c */), static_cast<size_t>(q)); cur.add(2, {}, q); break; }
					case 6: { VATA::ExplicitTreeAut tmp(y); x = std::move(tmp); cur = other; break; }
					default: break;
				}
			}
			VATA::ExplicitTreeAut wx;
			{ eng::LibSection ls(ctx, "history:GetCandidateTree"); wx = x.GetCandidateTree(); }
			const ref::TA WX = lib::read(wx);
			ref::InclResult rr = ref::included(WX, cur, tc::cap(ctx));
			if (rr.verdict == ref::Tri::NO) {
				ctx.fail("witness:history:not-sublanguage", "after step " + std::to_string(stepNo) + " (" + names[op] + ") the witness accepts " + ref::show(rr.witness) + " which the current automaton rejects; current " + cur.str());
				break;
			}
			if (WX.empty_lang() && !cur.empty_lang()) {
				ctx.fail("witness:history:empty", "after step " + std::to_string(stepNo) + " (" + names[op] + ") the witness is empty although the current language is not; current " + cur.str());
				break;
			}
			ctx.count("history_witnesses");
		}
	}
}
