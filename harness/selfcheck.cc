// Self-check of the reference models (no library call): the exact inclusion
// oracle, product, union, trim, simulations are compared with brute-force
// enumeration of small trees.  Run by `bin/check --setup`.
#include "../engine/ctx.hh"
#include "../engine/gen_ta.hh"
#include "../engine/ref_nfa.hh"

const char* const harness::ID = "SELF";

void harness::run_case(const eng::Raw& raw, eng::Ctx& ctx)
{
	gen::Limits lim;
	lim.maxStates = 3;
	lim.arity3 = false;
	const std::vector<int> w = {4, 2, 3, 3, 1, 2, 1};
	gen::PairCase c = gen::decode_pair(raw, lim, w);
	ctx.describe(gen::describe_pair(c));

	std::set<int> syms = c.A.symbols();
	for (int s : c.B.symbols()) syms.insert(s);
	std::vector<ref::TreeP> trees = ref::enumerate_trees(syms, 3, 1500);

	ref::InclResult r = ref::included(c.A, c.B, 100000);
	if (r.verdict == ref::Tri::UNKNOWN) { ctx.inconclusive("cap"); return; }
	bool sep = false;
	ref::TA prod = ref::product(c.A, c.B);
	ref::TA uni = ref::union_disjoint(c.A, c.B);
	ref::TA ta = c.A.trim();
	for (auto& t : trees) {
		const bool inA = c.A.accepts(t), inB = c.B.accepts(t);
		if (inA && !inB) sep = true;
		if (prod.accepts(t) != (inA && inB)) ctx.fail("self:product", ref::show(t));
		if (uni.accepts(t) != (inA || inB)) ctx.fail("self:union", ref::show(t));
		if (ta.accepts(t) != inA) ctx.fail("self:trim", ref::show(t));
	}
	if (r.verdict == ref::Tri::YES && sep) ctx.fail("self:included:false-positive", "enumeration separates");
	if (r.verdict == ref::Tri::NO) {
		if (!c.A.accepts(r.witness) || c.B.accepts(r.witness)) ctx.fail("self:included:bad-witness", ref::show(r.witness));
	}
	if (c.A.empty_lang()) {
		for (auto& t : trees) if (c.A.accepts(t)) ctx.fail("self:empty", ref::show(t));
	}
	// simulations imply language inclusion of the states involved
	{
		std::set<int> uni2 = c.A.states();
		ref::Rel d = ref::downward_sim(c.A, uni2);
		for (auto& p : d) {
			if (ref::included(c.A.rooted(p.first), c.A.rooted(p.second)).verdict == ref::Tri::NO)
				ctx.fail("self:downsim", "related states with non-included languages");
			if (!d.count({p.first, p.first})) ctx.fail("self:downsim-refl", "");
		}
		// determinisation keeps the language
		ref::TA det = ref::determinise(c.A, 64);
		if (det.states().size() < 64)
			for (auto& t : trees) if (det.accepts(t) != c.A.accepts(t)) ctx.fail("self:det", ref::show(t));
	}
	// word automata: subset-construction oracle vs. enumeration of short words
	{
		ref::NFA X = ref::nfa_from_raw(raw, 3, 2, 0), Y = ref::nfa_from_raw(raw, 3, 2, 1);
		ref::Tri v = ref::nfa_included(X, Y).verdict;
		bool sepw = false;
		std::vector<std::vector<int>> words{{}};
		for (size_t i = 0; i < words.size() && words.size() < 400; ++i) {
			if (words[i].size() >= 5) continue;
			for (int s = 0; s < 2; ++s) { auto wv = words[i]; wv.push_back(s); words.push_back(wv); }
		}
		ref::NFA P = ref::nfa_product(X, Y), R = X.reversed();
		for (auto& wv : words) {
			const bool inX = X.accepts(wv), inY = Y.accepts(wv);
			if (inX && !inY) sepw = true;
			if (P.accepts(wv) != (inX && inY)) ctx.fail("self:nfa-product", "");
			auto rv = wv; std::reverse(rv.begin(), rv.end());
			if (R.accepts(rv) != inX) ctx.fail("self:nfa-reverse", "");
		}
		if (v == ref::Tri::YES && sepw) ctx.fail("self:nfa-included:false-positive", "");
		if (v == ref::Tri::NO && !sepw) {
			// witness may be longer than 5; check it directly
			auto wres = ref::nfa_included(X, Y);
			if (!X.accepts(wres.witness) || Y.accepts(wres.witness)) ctx.fail("self:nfa-included:bad-witness", "");
		}
	}
	ctx.nontrivial(!c.A.empty_lang() && !c.B.empty_lang());
}
