// C04 — tree-automata simulations returned are the greatest downward/upward simulations
#include <memory>
#include "tree_common.hh"
#include <vata/sim_param.hh>

const char* const harness::ID = "C04";

namespace {

// renumber the occurring states densely, through a generated permutation
ref::TA compact(const ref::TA& A, uint32_t seed, int& n)
{
	std::set<int> st = A.states();
	n = static_cast<int>(st.size());
	gen::Numbering perm = gen::make_numbering(seed, n, true);
	std::map<int,int> m;
	int i = 0;
	for (int q : st) m[q] = static_cast<int>(perm(i++));
	return A.image(m);
}

void compare(eng::Ctx& ctx, const std::string& dir, const ref::TA& V, int n,
	const VATA::AutBase::StateDiscontBinaryRelation& sim, const ref::Rel& want)
{
	std::string extra, missing;
	for (int q = 0; q < n; ++q) for (int r = 0; r < n; ++r) {
		bool got;
		try { got = sim.get(static_cast<size_t>(q), static_cast<size_t>(r)); }
		catch (const std::exception& e) {
			ctx.fail("sim:" + dir + ":lookup-exception", "get(" + std::to_string(q) + "," + std::to_string(r) + ") threw " + e.what() + " for " + V.str());
			return;
		}
		const bool exp = want.count({q, r}) > 0;
		if (got && !exp && extra.size() < 200) extra += "(" + std::to_string(q) + "," + std::to_string(r) + ")";
		if (!got && exp && missing.size() < 200) missing += "(" + std::to_string(q) + "," + std::to_string(r) + ")";
	}
	ctx.count("relations_compared");
	if (!extra.empty()) ctx.fail("sim:" + dir + ":too-big", dir + " simulation relates " + extra + " which the greatest simulation does not; automaton " + V.str().substr(0, 1500));
	if (!missing.empty()) ctx.fail("sim:" + dir + ":too-small", dir + " simulation lacks " + missing + " of the greatest simulation; automaton " + V.str());
}

// the relation is a value: a copy (constructed or assigned) must answer the same after its original is gone
void as_value(eng::Ctx& ctx, const std::string& dir, const ref::TA& V, int n,
	const VATA::AutBase::StateDiscontBinaryRelation& sim, const ref::Rel& want, uint32_t how)
{
	typedef VATA::AutBase::StateDiscontBinaryRelation Rel;
	if (how % 4 == 0 || n > 12) return;
	std::unique_ptr<Rel> cp;
	{
		eng::LibSection ls(ctx, "relation:copy:" + dir);
		std::unique_ptr<Rel> orig(new Rel);
		*orig = sim;
		if (how % 4 == 1) cp.reset(new Rel(*orig));
		else if (how % 4 == 2) { cp.reset(new Rel); *cp = *orig; }
		else { std::unique_ptr<Rel> mid(new Rel(*orig)); cp.reset(new Rel(*mid)); }
		orig.reset();
	}
	ctx.count("relation_copies_compared");
	eng::LibSection ls(ctx, "relation:copy:read:" + dir);
	compare(ctx, dir + ":copy", V, n, *cp, want);
}

} // namespace

void harness::run_case(const eng::Raw& raw, eng::Ctx& ctx)
{
	gen::Limits lim;
	lim.overload = true;
	lim.maxStates = ctx.tier() ? 8 : 6;
	lim.arity3 = true;
	gen::TACase c = gen::decode_ta(raw, lim, true);
	ctx.small_case(true);
	// 1/24 of the cases are LARGE (20..150 states): a backbone of unary / binary rules through all states (so the
	// automaton is trimmed) plus the generated rules folded in; relation tables grow in powers of two from 16 and the
	// simulation engine keeps bit masks in words of 64
	const bool large = (c.header[7] % 24 == 23);
	if (large) {
		const int n = 20 + static_cast<int>(c.header[6] % 131);
		ref::TA L;
		L.add(0 /* a */, {}, 0);
		// DENSE half: every state owns the same leaf and the backbone uses one unary symbol only, so that the downward
		// simulation is (nearly) a total order - relations with thousands of pairs instead of a few more than n
		const bool dense = (c.header[6] / 256) % 2;
		if (dense) ctx.tag("large:dense-relation");
		for (int i = 1; i < n; ++i) {
			const uint64_t m = gen::mix(c.header[5], static_cast<uint64_t>(i));
			if (dense) { L.add(4 /* g */, {i - 1}, i); L.add(0 /* a */, {}, i); if (m % 23 == 0) L.add(1 /* b */, {}, i); continue; }
			if (m % 3 == 0) L.add(6 /* f */, {i - 1, static_cast<int>((m / 3) % static_cast<uint64_t>(i))}, i);
			else L.add((m % 3 == 1) ? 4 /* g */ : 5 /* h */, {i - 1}, i);
			if (m % 11 == 0) L.add(1 /* b */, {}, i);
		}
		for (auto& r : c.A.rules) {     // the generated rules, stretched over the large state space
			ref::Rule x = r;
			x.par = (x.par * 17) % n;
			for (auto& ch : x.ch) ch = (ch * 13) % n;
			L.rules.insert(x);
		}
		L.finals.insert(n - 1);
		for (int f : c.A.finals) L.finals.insert((f * 29) % n);
		c.A = L;
		ctx.tag("large:20-150-states");
	}

	int nd = 0, nu = 0;
	const ref::TA D = compact(c.A, c.header[3], nd);           // downward: arbitrary automaton
	const ref::TA U = compact(c.A.trim(), c.header[5], nu);    // upward: trimmed (the stated precondition)
	std::vector<ref::Rule> orderD = gen::shuffled(D.rules, c.header[4]);
	std::vector<ref::Rule> orderU = gen::shuffled(U.rules, c.header[4] / 4);
	if (large) ctx.describe("large automaton, seeds " + std::to_string(c.header[5]) + "/" + std::to_string(c.header[6]) + ", " + std::to_string(nd) + " states, " +
		std::to_string(D.rules.size()) + " rules; first rules: " + D.str().substr(0, 400));
	else ctx.describe("downward on\n" + ref::to_timbuk(D, "D", {}, &orderD) + "upward on\n" + ref::to_timbuk(U, "U", {}, &orderU));

	std::set<int> uniD, uniU;
	for (int i = 0; i < nd; ++i) uniD.insert(i);
	for (int i = 0; i < nu; ++i) uniU.insert(i);
	const ref::Rel wantD = ref::downward_sim(D, uniD);
	const ref::Rel wantU = ref::upward_sim(U, uniU);
	auto interesting = [](const ref::Rel& r, int n) {
		return static_cast<int>(r.size()) > n && static_cast<int>(r.size()) < n * n;
	};
	ctx.nontrivial(interesting(wantD, nd) || interesting(wantU, nu));
	if (interesting(wantD, nd)) ctx.tag("down-nontrivial");
	if (interesting(wantU, nu)) ctx.tag("up-nontrivial");
	if (nu == 0) ctx.tag("up-empty-automaton");

	gen::Numbering id = lib::identity_numbering(std::max(nd, nu) + 1);

	if (nd > 0) {
		VATA::AutBase::StateDiscontBinaryRelation sim;
		{
			eng::LibSection ls(ctx, "ComputeSimulation:down");
			VATA::ExplicitTreeAut a = lib::build(D, orderD, id);
			VATA::SimParam sp;
			sp.SetRelation(VATA::SimParam::e_sim_relation::TA_DOWNWARD);
			sp.SetNumStates(static_cast<size_t>(nd));
			sim = a.ComputeSimulation(sp);
		}
		compare(ctx, "down", D, nd, sim, wantD);
		as_value(ctx, "down", D, nd, sim, wantD, c.header[6]);
	}
	if (nd == 0 || nu == 0) {
		// the empty automaton with NumStates = 0: an empty relation must come back (both directions)
		for (int up = (nd == 0 ? 0 : 1); up < 2; ++up) {
			eng::LibSection ls(ctx, up ? "ComputeSimulation:up:empty" : "ComputeSimulation:down:empty");
			VATA::ExplicitTreeAut a;
			VATA::SimParam sp;
			sp.SetRelation(up ? VATA::SimParam::e_sim_relation::TA_UPWARD : VATA::SimParam::e_sim_relation::TA_DOWNWARD);
			sp.SetNumStates(0);
			VATA::AutBase::StateDiscontBinaryRelation sim = a.ComputeSimulation(sp);
			if (sim.size() != 0) ctx.fail(std::string("sim:") + (up ? "up" : "down") + ":empty-automaton", "non-empty relation for the empty automaton");
			ctx.count("empty_automaton_checked");
		}
	}
	if (nu > 0) {
		VATA::AutBase::StateDiscontBinaryRelation sim;
		{
			eng::LibSection ls(ctx, "ComputeSimulation:up");
			VATA::ExplicitTreeAut a = lib::build(U, orderU, id);
			VATA::SimParam sp;
			sp.SetRelation(VATA::SimParam::e_sim_relation::TA_UPWARD);
			sp.SetNumStates(static_cast<size_t>(nu));
			sim = a.ComputeSimulation(sp);
		}
		compare(ctx, "up", U, nu, sim, wantU);
		as_value(ctx, "up", U, nu, sim, wantU, c.header[6] / 4);
	}
}
