// C18 — MTBDD nodes live exactly as long as something refers to them
#include "mtbdd_common.hh"

const char* const harness::ID = "C18";

template <class C>
static void run(const eng::Raw& raw, eng::Ctx& ctx)
{
	using MT = typename mt::Ops<C>::MT;
#ifdef LIBVATA_VERIF
	const size_t leaves0 = MT::VerifLeafCacheSize(), internal0 = MT::VerifInternalCacheSize();
#endif
	mt::Ops<C> o(ctx, true);
	o.structural = (!raw.empty() && raw[0][2] % 3 == 0);
	o.crowdMode = (!raw.empty() && (raw[0][2] / 3) % 6 == 0);
	for (size_t i = 1; i < raw.size() && !o.failed; ++i) o.run_step(raw[i]);
	ctx.nontrivial(o.destroyedSharing);
	for (auto& s : o.ops) ctx.tag("op:" + s);
	ctx.tag(std::string("leaf-type:") + C::name());
	ctx.count("steps", o.step);
	if (o.failed) return;
	{
		// destroy the remaining handles in a generated order
		eng::LibSection ls(ctx, "mtbdd:destroy-all");
		uint32_t sel = raw.empty() ? 0 : raw[0][1];
		if (sel % 2) o.release_crowd();
		while (!o.pool.empty()) {
			size_t i = static_cast<size_t>(gen::mix(sel, o.pool.size()) % o.pool.size());
			o.pool.erase(o.pool.begin() + static_cast<long>(i));
		}
		o.release_crowd();
	}
	if (o.crowdPeak) { ctx.tag(o.crowdPeak > 65536 ? "crowd:more-than-65536-references" : (o.crowdPeak > 1024 ? "crowd:more-than-1024-references" : "crowd:small")); }
#ifdef LIBVATA_VERIF
	const size_t leaves1 = MT::VerifLeafCacheSize(), internal1 = MT::VerifInternalCacheSize();
	// Project may leave unreferenced intermediate nodes by design: the size law is stated for construction, copy and apply
	if (o.projected) { ctx.tag("size-law-skipped:history-with-structural-operations"); ctx.count("store_size_checks_skipped"); }
	else if (leaves1 != leaves0 || internal1 != internal0)
		ctx.fail(leaves1 + internal1 > leaves0 + internal0 ? "mtbdd:store:nodes-left" : "mtbdd:store:nodes-missing",
			"node store has " + std::to_string(leaves1) + " leaves / " + std::to_string(internal1) + " internal nodes after destroying every handle, " +
			std::to_string(leaves0) + " / " + std::to_string(internal0) + " before the history [" + o.log.str() + "]");
	ctx.count("store_size_checks");
#else
	ctx.machinery_error("built without -DLIBVATA_VERIF: the node-store size hook is missing");
#endif
}

void harness::run_case(const eng::Raw& raw, eng::Ctx& ctx)
{
	const eng::Rec h = raw.empty() ? eng::Rec{} : raw[0];
	const bool sets = (h[0] % 3 == 2);
	std::ostringstream d;
	d << "leaf type " << (sets ? mt::SetCodec::name() : mt::IntCodec::name()) << "; steps (op,args):";
	for (size_t i = 1; i < raw.size(); ++i) d << " " << raw[i][0] % 16 << "(" << raw[i][1] << "," << raw[i][2] << "," << raw[i][3] << "," << raw[i][4] << ")";
	ctx.describe(d.str());
	ctx.small_case(true);
	if (sets) run<mt::SetCodec>(raw, ctx); else run<mt::IntCodec>(raw, ctx);
}
