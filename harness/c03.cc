// C03 — trimming preserves the language and leaves no dead states; emptiness is exact
#include "tree_common.hh"

const char* const harness::ID = "C03";

void harness::run_case(const eng::Raw& raw, eng::Ctx& ctx)
{
	gen::Limits lim;
	lim.overload = true;
	lim.maxStates = ctx.tier() ? 8 : 6;
	lim.arity3 = true;
	gen::TACase c = gen::decode_ta(raw, lim, false);
	const std::string largeTag = gen::enlarge(c, false, 48);
	if (!largeTag.empty()) ctx.tag(largeTag);
	const uint32_t flavour = c.header[0] % 6;
	int n = c.n;
	switch (flavour) {
		case 1:   // final state without rules + unreachable state that owns a rule (equal set sizes, different sets)
			c.A.finals.insert(n);
			c.A.add(c.syms[0], {}, n + 1);
			n += 2;
			break;
		case 2: c.A.finals.clear(); break;
		case 3:   // rule over a child that never becomes productive
			c.A.add(4 /* g */, {n}, static_cast<int>(c.header[5] % static_cast<uint32_t>(c.n)));
			n += 1;
			break;
		case 4: { // only final states without rules next to an unreachable rule owner
			c.A.finals.clear();
			c.A.finals.insert(n);
			n += 1;
			break;
		}
		case 5: if (largeTag.empty()) {
			// one WIDE rule: a symbol of rank 33..40 over two fresh leaf-only states (one tree each, so the reference stays
			// linear) with - in most cases - one dead child at a generated position (often beyond the 32nd); the parent is a
			// fresh state that is final in half of the cases and feeds an existing state in the others
			const int rank = 33 + static_cast<int>(c.header[5] % 8);
			const int w = ref::symtab().id("w", rank);
			const int L1 = n, L2 = n + 1, D = n + 2, P = n + 3;
			c.A.add(c.syms[0], {}, L1);
			c.A.add(c.syms[0], {}, L2);
			std::vector<int> ch;
			for (int i = 0; i < rank; ++i) ch.push_back((gen::mix(c.header[6], static_cast<uint64_t>(i)) % 2) ? L1 : L2);
			const int deadPos = static_cast<int>(c.header[6] % static_cast<uint32_t>(rank + 6));
			if (deadPos < rank) ch[static_cast<size_t>(deadPos)] = D;
			c.A.add(w, ch, P);
			if (c.header[5] / 8 % 2) c.A.finals.insert(P);
			else c.A.add(4 /* g */, {P}, static_cast<int>(c.header[5] / 16 % static_cast<uint32_t>(c.n)));
			n += 4;
			ctx.tag(deadPos >= 32 && deadPos < rank ? "wide-rule:dead-child-beyond-position-32" : (deadPos < rank ? "wide-rule:dead-child" : "wide-rule:all-children-productive"));
			break;
		}
		// fall through
		default: break;
	}
	c.n = n;
	c.num = gen::make_numbering(c.header[3], c.n, false);
	c.order = gen::shuffled(c.A.rules, c.header[4]);
	ctx.describe("flavour " + std::to_string(flavour) + "\n" + gen::describe_ta(c));
	ctx.small_case(largeTag.empty());

	const ref::TA V = tc::lib_view(c.A, c.num);   // what the library holds
	const std::set<int> reach = V.reachable(), useful = V.useful(), all = V.states();
	std::set<int> owners;
	for (auto& r : V.rules) owners.insert(r.par);
	bool unreachableOwner = false, unproductive = false;
	for (int q : owners) if (!reach.count(q)) unreachableOwner = true;
	{
		auto prod = V.productive();
		for (int q : all) if (!prod.count(q)) unproductive = true;
	}
	ctx.nontrivial(unreachableOwner || unproductive);
	if (unreachableOwner) ctx.tag("has-unreachable-owner");
	if (unproductive) ctx.tag("has-unproductive-state");
	if (V.empty_lang()) ctx.tag("empty-language");
	{
		size_t reachOwners = 0;
		for (int q : reach) if (owners.count(q)) ++reachOwners;
		if (reach.size() == owners.size() && reachOwners != owners.size()) ctx.tag("equal-sizes-different-sets");
	}

	VATA::ExplicitTreeAut a;
	{
		eng::LibSection ls(ctx, "build");
		a = lib::build(c.A, c.order, c.num);
	}

	// one map object re-used across calls (third variant below): it arrives NON-EMPTY, filled by trimming another automaton
	VATA::AutBase::StateToStateMap reused;
	{
		ref::TA other = V;
		other.finals.clear();
		for (int q : V.states()) if (gen::mix(c.header[5], static_cast<uint64_t>(q) + 3) % 2) other.finals.insert(q);
		eng::LibSection ls(ctx, "fill-reused-map");
		VATA::ExplicitTreeAut o = lib::build(other);
		(void)o.RemoveUnreachableStates(&reused);
		(void)o.RemoveUselessStates(&reused);
	}
	// --- RemoveUnreachableStates
	for (int withMap = 0; withMap < 3; ++withMap) {
		VATA::AutBase::StateToStateMap fresh;
		VATA::AutBase::StateToStateMap& m = (withMap == 2) ? reused : fresh;
		VATA::ExplicitTreeAut r;
		{
			eng::LibSection ls(ctx, withMap == 2 ? "RemoveUnreachableStates(reused-map)" : withMap ? "RemoveUnreachableStates(map)" : "RemoveUnreachableStates");
			r = a.RemoveUnreachableStates(withMap ? &m : nullptr);
		}
		ref::TA R = lib::read(r);
		const std::string sig = (withMap == 2) ? "unreach-reused-map" : "unreach";
		tc::expect_equiv(ctx, sig, R, V, "RemoveUnreachableStates");
		const std::set<int> rr = R.reachable();
		for (int q : R.states()) {
			if (!rr.count(q)) {
				ctx.fail(sig + ":dead-state", "state " + std::to_string(q) + " still occurs but is not reachable from a final state; result " + R.str());
				break;
			}
		}
		tc::expect_unchanged(ctx, sig, a, V);
	}

	// --- RemoveUselessStates
	for (int withMap = 0; withMap < 3; ++withMap) {
		VATA::AutBase::StateToStateMap fresh;
		VATA::AutBase::StateToStateMap& m = (withMap == 2) ? reused : fresh;
		VATA::ExplicitTreeAut u;
		{
			eng::LibSection ls(ctx, withMap == 2 ? "RemoveUselessStates(reused-map)" : withMap ? "RemoveUselessStates(map)" : "RemoveUselessStates");
			u = a.RemoveUselessStates(withMap ? &m : nullptr);
		}
		ref::TA U = lib::read(u);
		const std::string sig = (withMap == 2) ? "useless-reused-map" : "useless";
		tc::expect_equiv(ctx, sig, U, V, "RemoveUselessStates");
		// every remaining state and rule takes part in some accepting run
		if (U.trim() != U) {
			ctx.fail(sig + ":dead-part", "result still has a state or rule outside every accepting run: " + U.str() +
				" (trimmed: " + U.trim().str() + ")");
		}
		tc::expect_unchanged(ctx, sig, a, V);
	}

	// --- IsLangEmpty along a short history on ONE object (queries interleaved with assignment and mutation):
	//     the answer must follow the current value, whatever was asked before
	{
		ref::TA cur = V;
		VATA::ExplicitTreeAut x;
		{ eng::LibSection ls(ctx, "history:copy"); x = a; }
		// the other value: same rules, emptiness flipped if possible
		ref::TA other = V;
		if (V.empty_lang()) { auto p = V.productive(); if (!p.empty()) other.finals.insert(*p.begin()); else { other.add(0, {}, 3); other.finals.insert(3); } }
		else other.finals.clear();
		VATA::ExplicitTreeAut y;
		{ eng::LibSection ls(ctx, "history:build-other"); y = lib::build(other); }
		for (int stepNo = 0; stepNo < 7; ++stepNo) {
			const uint32_t op = static_cast<uint32_t>(gen::mix(c.header[6], static_cast<uint64_t>(stepNo)) % 7);
			const char* names[] = {"query-only", "copy-assign-other", "copy-assign-original", "SetStateFinal", "EraseFinalStates", "AddTransition-leaf", "move-assign-other"};
			{
				eng::LibSection ls(ctx, std::string("history:") + names[op]);
				switch (op) {
					case 1: x = y; cur = other; break;
					case 2: x = a; cur = V; break;
					case 3: { auto p = cur.productive(); int q = p.empty() ? 0 : *p.rbegin(); x.SetStateFinal(static_cast<size_t>(q)); cur.finals.insert(q); break; }
					case 4: x.EraseFinalStates(); cur.finals.clear(); break;
					case 5: { int q = cur.finals.empty() ? 1 : *cur.finals.begin(); x.AddTransition({}, lib::sym_to_lib(x.GetAlphabet(), 0), static_cast<size_t>(q)); cur.add(0, {}, q); break; }
					case 6: { VATA::ExplicitTreeAut tmp(y); x = std::move(tmp); cur = other; break; }
					default: break;
				}
			}
			bool e;
			{ eng::LibSection ls(ctx, "history:IsLangEmpty"); e = x.IsLangEmpty(); }
			if (e != cur.empty_lang()) {
				ctx.fail(std::string("empty:history:") + (e ? "false-positive" : "false-negative"),
					std::string("IsLangEmpty answered ") + (e ? "true" : "false") + " after step " + std::to_string(stepNo) + " (" + names[op] + ") for " + cur.str());
				break;
			}
			ctx.count("history_emptiness_queries");
		}
	}

	// --- IsLangEmpty
	{
		bool e;
		{
			eng::LibSection ls(ctx, "IsLangEmpty");
			e = a.IsLangEmpty();
		}
		if (e != V.empty_lang())
			ctx.fail(std::string("empty:") + (e ? "false-positive" : "false-negative"),
				std::string("IsLangEmpty answered ") + (e ? "true" : "false") + " for " + V.str());
		tc::expect_unchanged(ctx, "empty", a, V);
	}
}
