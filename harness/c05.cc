// C05 — Reduce preserves the language and never grows the automaton
#include "tree_common.hh"
#include <vata/reduce_param.hh>

const char* const harness::ID = "C05";

namespace {

// is every rule / final state of R the h-image of a rule / final state of A ?
bool image_ok(const ref::TA& A, const ref::TA& R, const std::map<int,int>& h)
{
	auto f = [&h](int q) { auto it = h.find(q); return it == h.end() ? -1 : it->second; };
	std::set<ref::Rule> img;
	for (auto& r : A.rules) {
		ref::Rule n{r.sym, {}, f(r.par)};
		for (int c : r.ch) n.ch.push_back(f(c));
		img.insert(n);
	}
	for (auto& r : R.rules) if (!img.count(r)) return false;
	std::set<int> fimg;
	for (int q : A.finals) fimg.insert(f(q));
	for (int q : R.finals) if (!fimg.count(q)) return false;
	std::set<int> onto;
	for (auto& kv : h) onto.insert(kv.second);
	for (int q : R.states()) if (!onto.count(q)) return false;
	return true;
}

// bounded brute-force search for a partial map h: Q_A -> Q_R
bool search_image(const ref::TA& A, const ref::TA& R)
{
	const std::set<int> sa = A.states(), sr = R.states();      // (states() returns by value: never take begin()/end() of two calls)
	std::vector<int> qa(sa.begin(), sa.end());
	std::vector<int> qr(sr.begin(), sr.end());
	qr.push_back(-1);
	std::vector<size_t> pick(qa.size(), 0);
	if (qa.empty()) return sr.empty();
	for (;;) {
		std::map<int,int> h;
		for (size_t i = 0; i < qa.size(); ++i) if (qr[pick[i]] >= 0) h[qa[i]] = qr[pick[i]];
		if (image_ok(A, R, h)) return true;
		size_t k = 0;
		for (; k < qa.size(); ++k) { if (++pick[k] < qr.size()) break; pick[k] = 0; }
		if (k == qa.size()) return false;
	}
}

} // namespace

void harness::run_case(const eng::Raw& raw, eng::Ctx& ctx)
{
	gen::Limits lim;
	lim.overload = true;
	lim.maxStates = ctx.tier() ? 5 : 4;
	lim.arity3 = true;
	gen::TACase c = gen::decode_ta(raw, lim, false);
	const std::string largeTag = gen::enlarge(c, false);
	if (!largeTag.empty()) ctx.tag(largeTag);
	// flavour 1,2: split every state in two copies (creates simulation-equivalent states)
	const uint32_t flavour = c.header[0] % 4;
	if (flavour >= 1) {
		ref::TA S;
		for (auto& r : c.A.rules) {
			const size_t slots = r.ch.size() + 1;
			const uint32_t ncopies = 1u << slots;
			uint32_t mask = (flavour == 1) ? ((1u << ncopies) - 1) : (c.aux[r] % (1u << ncopies));
			if (mask == 0) mask = 1;
			for (uint32_t cp = 0; cp < ncopies; ++cp) {
				if (!((mask >> cp) & 1)) continue;
				ref::Rule n{r.sym, {}, 2 * r.par + static_cast<int>(cp & 1)};
				for (size_t i = 0; i < r.ch.size(); ++i) n.ch.push_back(2 * r.ch[i] + static_cast<int>((cp >> (i + 1)) & 1));
				S.rules.insert(n);
			}
		}
		for (int f : c.A.finals) { S.finals.insert(2 * f); if (c.header[5] % 2 == 0 || flavour == 1) S.finals.insert(2 * f + 1); }
		c.A = S;
		c.n = 2 * c.n;
		c.num = gen::make_numbering(c.header[3], c.n, false);
		c.order = gen::shuffled(c.A.rules, c.header[4]);
	}
	ctx.describe("flavour " + std::to_string(flavour) + "\n" + gen::describe_ta(c));
	ctx.small_case(largeTag.empty());

	const ref::TA V = tc::lib_view(c.A, c.num);
	const std::set<int> st = V.states();
	const ref::Rel sim = ref::downward_sim(V, st);
	const std::set<int> useful = V.useful();
	bool equivClass = false;
	for (int q : useful) for (int r : useful)
		if (q < r && sim.count({q, r}) && sim.count({r, q})) equivClass = true;
	ctx.nontrivial(equivClass);
	if (equivClass) ctx.tag("has-equivalent-useful-states");
	if (useful.size() != st.size()) ctx.tag("has-useless-states");

	VATA::ExplicitTreeAut a, red;
	{
		eng::LibSection ls(ctx, "build");
		a = lib::build(c.A, c.order, c.num);
	}
	{
		eng::LibSection ls(ctx, "Reduce");
		if (c.header[6] % 2) {
			VATA::ReduceParam rp;
			rp.SetRelation(VATA::ReduceParam::e_reduce_relation::TA_DOWNWARD);
			red = a.Reduce(rp);
		}
		else red = a.Reduce();
	}
	const ref::TA R = lib::read(red);
	tc::expect_equiv(ctx, "reduce", R, V, "Reduce");
	if (R.states().size() > st.size())
		ctx.fail("reduce:more-states", "Reduce returned " + std::to_string(R.states().size()) + " states for " + std::to_string(st.size()) + ": " + R.str());
	if (R.rules.size() > V.rules.size())
		ctx.fail("reduce:more-rules", "Reduce returned " + std::to_string(R.rules.size()) + " rules for " + std::to_string(V.rules.size()) + ": " + R.str());
	if (R.states().size() < st.size()) ctx.tag("reduced");

	// every state of the result is the image of a state of the input
	{
		bool ok = false;
		std::set<int> rs = R.states();
		bool subset = true;
		for (int q : rs) if (!st.count(q)) subset = false;
		if (subset) {
			// fast path: h = representative (in Q_R) of the simulation-equivalence class
			std::map<int,int> h;
			for (int q : st) for (int r : rs)
				if (sim.count({q, r}) && sim.count({r, q})) { h[q] = r; break; }
			ok = image_ok(V, R, h);
			if (ok) ctx.tag("image-by-representative");
		}
		if (!ok) {
			if (st.size() <= 5) { ok = search_image(V, R); ctx.tag("image-by-search"); }
			else { ctx.inconclusive("reduce-image-search"); ok = true; }
		}
		if (!ok) ctx.fail("reduce:not-an-image", "no map from input states onto result states makes every result rule the image of an input rule; input " + V.str() + " result " + R.str());
	}
	tc::expect_unchanged(ctx, "reduce", a, V);
}
