// Shared by C17 / C18: histories over a pool of MTBDD handles with a
// truth-table model (6 variables, 64 total assignments).
#pragma once
#include "../engine/ctx.hh"
#include "../engine/gen_ta.hh"

#include <vata/sym_var_asgn.hh>
#include <vata/util/ord_vector.hh>
#include "mtbdd/apply1func.hh"
#include "mtbdd/apply2func.hh"
#include "mtbdd/apply3func.hh"
#include "mtbdd/void_apply1func.hh"
#include "mtbdd/void_apply2func.hh"
#include "mtbdd/ondriks_mtbdd.hh"

#include <array>
#include <memory>

namespace mt {

using VATA::SymbolicVarAsgn;
using VATA::MTBDDPkg::OndriksMTBDD;

constexpr int NV = 6;
constexpr int NX = 64;

struct IntCodec {
	using Data = int;
	static constexpr int R = 5;
	static Data enc(int c) { return c * 3 - 4; }          // includes negative values
	static int dec(const Data& d) { return (d + 4) / 3; }
	static const char* name() { return "int"; }
};

struct SetCodec {
	using Data = VATA::Util::OrdVector<size_t>;
	static constexpr int R = 8;
	static Data enc(int c) { Data d; for (size_t b = 0; b < 3; ++b) if ((c >> b) & 1) d.insert(b * 5 + 1); return d; }
	static int dec(const Data& d) { int c = 0; for (size_t x : d) c |= 1 << ((x - 1) / 5); return c; }
	static const char* name() { return "OrdVector<size_t>"; }
};

struct Table {
	std::array<int, NX> v{};
	int def = 0;
	bool operator==(const Table& o) const { return v == o.v; }
	bool depends_on(int var) const
	{
		for (int x = 0; x < NX; ++x) if (v[static_cast<size_t>(x)] != v[static_cast<size_t>(x ^ (1 << var))]) return true;
		return false;
	}
	int top_var() const { for (int var = NV - 1; var >= 0; --var) if (depends_on(var)) return var; return -1; }
	int distinct() const { std::set<int> s(v.begin(), v.end()); return static_cast<int>(s.size()); }
};

// cube over NV variables encoded in base 3: digit 0 -> '0', 1 -> '1', 2 -> don't care
inline std::string cube(uint32_t code, int len = NV)
{
	std::string s;
	for (int i = 0; i < len; ++i) { s += "01X"[code % 3]; code /= 3; }
	return s;
}
inline bool matches(const std::string& cubeStr, int x, int offset = 0)
{
	for (size_t i = 0; i < cubeStr.size(); ++i) {
		const int bit = (x >> (static_cast<int>(i) + offset)) & 1;
		if (cubeStr[i] == '0' && bit) return false;
		if (cubeStr[i] == '1' && !bit) return false;
	}
	return true;
}
inline SymbolicVarAsgn total(int x) { return SymbolicVarAsgn(static_cast<size_t>(NV), static_cast<size_t>(x)); }

template <class C>
struct Ops {
	using Data = typename C::Data;
	using MT = OndriksMTBDD<Data>;

	GCC_DIAG_OFF(effc++)
	struct F1 : public VATA::MTBDDPkg::Apply1Functor<F1, Data, Data> {
		uint32_t seed = 0;
		int code(int a) const { return static_cast<int>(gen::mix(seed, static_cast<uint64_t>(a)) % C::R); }
		Data ApplyOperation(const Data& a) { return C::enc(code(C::dec(a))); }
	};
	struct F2 : public VATA::MTBDDPkg::Apply2Functor<F2, Data, Data, Data> {
		uint32_t seed = 0; int kind = 0;       // kind 0: arbitrary table, 1: max, 2: min
		int code(int a, int b) const
		{
			if (kind == 1) return std::max(a, b);
			if (kind == 2) return std::min(a, b);
			return static_cast<int>(gen::mix(seed, static_cast<uint64_t>(a * C::R + b)) % C::R);
		}
		Data ApplyOperation(const Data& a, const Data& b) { return C::enc(code(C::dec(a), C::dec(b))); }
	};
	struct F3 : public VATA::MTBDDPkg::Apply3Functor<F3, Data, Data, Data, Data> {
		uint32_t seed = 0;
		int code(int a, int b, int c) const { return static_cast<int>(gen::mix(seed, static_cast<uint64_t>((a * C::R + b) * C::R + c)) % C::R); }
		Data ApplyOperation(const Data& a, const Data& b, const Data& c) { return C::enc(code(C::dec(a), C::dec(b), C::dec(c))); }
	};
	struct Ite : public VATA::MTBDDPkg::Apply3Functor<Ite, Data, Data, Data, Data> {
		Data ApplyOperation(const Data& sel, const Data& hi, const Data& lo) { return C::dec(sel) == 1 ? hi : lo; }
	};
	struct V1 : public VATA::MTBDDPkg::VoidApply1Functor<V1, Data> {
		std::set<int> seen;
		void ApplyOperation(const Data& a) { seen.insert(C::dec(a)); }
	};
	struct V2 : public VATA::MTBDDPkg::VoidApply2Functor<V2, Data, Data> {
		std::set<std::pair<int,int>> seen;
		bool stopAfterFirst = false;
		void ApplyOperation(const Data& a, const Data& b) { seen.insert({C::dec(a), C::dec(b)}); if (stopAfterFirst) this->stopProcessing(); }
	};
	GCC_DIAG_ON(effc++)

	struct H { std::unique_ptr<MT> m; Table t; int group; };

	eng::Ctx& ctx;
	std::vector<H> pool;
	std::ostringstream log;
	int step = 0;
	bool failed = false;
	bool lifetime;                   // C18 mode: no Project (it may leave unreferenced nodes by design)
	bool sharedApply = false, threeLeaves = false, destroyedSharing = false;
	int nextGroup = 0;
	std::set<std::string> ops;
	static constexpr size_t MAXP = 7;
	// functor OBJECTS are re-used across calls, as library code does (every call must start from a clean cache)
	F1 f1_; F2 f2_; F3 f3_; F2 projMax_, projMin_; Ite ite_; V2 v2_;
	bool projected = false;
	bool structural = false;         // C18: this history may use Project / Rename / ExtendWith / GetMtbddForPrefix

	Ops(eng::Ctx& c, bool lifetimeMode) : ctx(c), lifetime(lifetimeMode) {}

	// CROWD histories (a fraction chosen by the harness): "copy" steps make hundreds to tens of thousands of extra
	// references to one node at a time - copies of one handle, or one-cube diagrams that all hang the same default leaf
	// under every internal node - and release a generated part of them while the pool handles stay alive.  Reference
	// counts then leave the range that a handful of handles can reach (the counters are per node, any width is "enough"
	// for a small pool).
	bool crowdMode = false;
	std::vector<MT> crowd;
	size_t crowdPeak = 0;
	void release_crowd() { crowd.clear(); }

	template <class D = Data>
	typename std::enable_if<std::is_same<D, int>::value, bool>::type
	crowd_of_diagrams(size_t n, int defCode)
	{
		// distinct (cube, value) pairs with values outside the model's range: every diagram is a chain of NV internal
		// nodes whose other branch is the shared default leaf
		for (size_t k = 0; k < n; ++k) {
			std::string cb = cube(0, NV);
			for (int i = 0; i < NV; ++i) cb[static_cast<size_t>(i)] = ((k >> i) & 1) ? '1' : '0';
			crowd.emplace_back(SymbolicVarAsgn(cb), 1000 + static_cast<int>(k >> NV), C::enc(defCode));
		}
		return true;
	}
	template <class D = Data>
	typename std::enable_if<!std::is_same<D, int>::value, bool>::type
	crowd_of_diagrams(size_t, int) { return false; }

	void crowd_step(const eng::Rec& r, size_t i)
	{
		static const size_t sizes[] = {40, 300, 1100, 5000, 33000, 66000};
		size_t n = sizes[r[3] % 6] + r[4] % 4000;
		const bool diagrams = (r[5] / 64) % 3 == 0;
		if (diagrams) n = n / NV + 1;
		log << step << ":crowd(" << (diagrams ? "diagrams" : "copies of m" + std::to_string(i)) << ",n=" << n << ") ";
		const size_t before = crowd.size();
		{
			eng::LibSection ls(ctx, "mtbdd:crowd:create");
			if (!diagrams || !crowd_of_diagrams(n, pool[i].t.def)) {
				crowd.reserve(before + n);
				for (size_t k = 0; k < n; ++k) crowd.emplace_back(*pool[i].m);
			}
		}
		crowdPeak = std::max(crowdPeak, crowd.size());
		check_all("crowd-created");
		if (failed) return;
		// release between 1/16 and 16/16 of the whole crowd, from the back or from the front
		const size_t drop = std::max<size_t>(1, crowd.size() * (1 + r[5] % 16) / 16);
		{
			eng::LibSection ls(ctx, "mtbdd:crowd:release");
			if ((r[5] / 16) % 2) crowd.erase(crowd.begin(), crowd.begin() + static_cast<long>(drop));
			else crowd.resize(crowd.size() - drop, MT(C::enc(0)));
		}
		log << "released " << drop << " ";
	}

	size_t lastPut = 0;
	void put(MT&& m, const Table& t, int group, uint32_t sel)
	{
		if (t.distinct() >= 3) threeLeaves = true;
		if (pool.size() < MAXP) { pool.push_back(H{std::unique_ptr<MT>(new MT(std::move(m))), t, group}); lastPut = pool.size() - 1; return; }
		size_t i = sel % pool.size();
		lastPut = i;
		pool[i].m.reset(new MT(std::move(m)));     // the old handle is destroyed here
		pool[i].t = t; pool[i].group = group;
	}

	void fail(const std::string& sig, const std::string& msg)
	{
		ctx.fail(sig, "step " + std::to_string(step) + ": " + msg + " [" + C::name() + " history: " + log.str() + "]");
		failed = true;
	}

	// every live handle still denotes its function; equality is function equality
	void check_all(const std::string& after)
	{
		eng::LibSection ls(ctx, "mtbdd:read-all");
		for (size_t i = 0; i < pool.size() && !failed; ++i) {
			for (int x = 0; x < NX; ++x) {
				const int got = C::dec(pool[i].m->GetValue(total(x)));
				if (got != pool[i].t.v[static_cast<size_t>(x)]) {
					fail("mtbdd:value:" + after, "handle m" + std::to_string(i) + " returns code " + std::to_string(got) + " for assignment " +
						std::to_string(x) + ", its function has " + std::to_string(pool[i].t.v[static_cast<size_t>(x)]));
					return;
				}
			}
			if (C::dec(pool[i].m->GetDefaultValue()) != pool[i].t.def) { fail("mtbdd:default:" + after, "default value of m" + std::to_string(i) + " changed"); return; }
		}
		for (size_t i = 0; i < pool.size() && !failed; ++i) for (size_t j = 0; j < pool.size(); ++j) {
			const bool eq = (*pool[i].m == *pool[j].m), want = (pool[i].t == pool[j].t);
			if (eq != want) {
				fail(std::string("mtbdd:canonicity:") + (eq ? "equal-but-different-functions" : "same-function-but-unequal"),
					"m" + std::to_string(i) + " == m" + std::to_string(j) + " is " + (eq ? "true" : "false") + " after " + after);
				return;
			}
			if ((*pool[i].m != *pool[j].m) == eq) { fail("mtbdd:canonicity:neq-inconsistent", "operator!= disagrees with operator=="); return; }
		}
		ctx.count("invariant_checks");
	}

	// the canonical MTBDD of a truth table, rebuilt through constants and if-then-else applies only
	MT canonical(const Table& t, int var, int base)
	{
		if (var < 0) return MT(C::enc(t.v[static_cast<size_t>(base)]));
		bool same = true;
		for (int x = 0; x < (1 << var) && same; ++x) if (t.v[static_cast<size_t>(base | x)] != t.v[static_cast<size_t>(base | x | (1 << var))]) same = false;
		if (same) return canonical(t, var - 1, base);
		MT lo = canonical(t, var - 1, base), hi = canonical(t, var - 1, base | (1 << var));
		std::string cb(static_cast<size_t>(NV), 'X');
		cb[static_cast<size_t>(var)] = '1';
		MT sel(SymbolicVarAsgn(cb), C::enc(1), C::enc(0));
		return ite_(sel, hi, lo);
	}

	// a handle produced by a node-constructing operation must BE the canonical MTBDD of its function
	void check_canonical(const H& h, const std::string& after)
	{
		eng::LibSection ls(ctx, "mtbdd:canonical-rebuild");
		Table t0 = h.t;
		MT c = canonical(t0, NV - 1, 0);
		for (int x = 0; x < NX; x += 7)
			if (C::dec(c.GetValue(total(x))) != h.t.v[static_cast<size_t>(x)]) { ctx.machinery_error("canonical rebuild denotes another function"); return; }
		if (!(c == *h.m)) fail("mtbdd:canonicity:not-canonical:" + after, "the result of " + after + " denotes the right function but is not equal to the MTBDD rebuilt for that function");
		ctx.count("canonical_rebuilds");
	}

	void check_paths(const H& h)
	{
		eng::LibSection ls(ctx, "mtbdd:GetPaths");
		auto paths = h.m->GetPaths();
		for (int x = 0; x < NX; ++x) {
			int hits = 0, val = -1;
			for (auto& p : paths) {
				bool m = true;
				for (size_t i = 0; i < p.first.length() && m; ++i) {
					const char c = p.first.GetIthVariableValue(i);
					const int bit = (x >> i) & 1;
					if (c == SymbolicVarAsgn::ONE && !bit) m = false;
					if (c == SymbolicVarAsgn::ZERO && bit) m = false;
				}
				if (m) { ++hits; val = C::dec(p.second); }
			}
			if (hits != 1) { fail("mtbdd:paths:not-a-partition", "assignment " + std::to_string(x) + " is matched by " + std::to_string(hits) + " paths"); return; }
			if (val != h.t.v[static_cast<size_t>(x)]) { fail("mtbdd:paths:value", "path value differs for assignment " + std::to_string(x)); return; }
		}
		ctx.count("paths_checked");
	}

	void run_step(const eng::Rec& r)
	{
		++step;
		uint32_t op = r[0] % 16;
		if (pool.empty() && op >= 3) op = op % 3;
		// lifetime mode (C18): only the operations the property names (construction, copy, assignment, apply, destruction)
		// lifetime mode (C18): two thirds of the histories use only the operations the property names (construction, copy,
		// assignment, apply, destruction) and are subject to the node-store size law; the others may use every operation
		if (lifetime && !structural && op >= 8 && op <= 11) op = 3 + (op - 8);
		if (lifetime && structural && op >= 8 && op <= 11) projected = true;      // no size law for these histories
		auto pick = [&](uint32_t v) { return static_cast<size_t>(v % pool.size()); };
		std::string what;
		switch (op) {
			case 0: case 1: {   // constructor (cube, value, default)
				what = "construct";
				// 1/16 of the cubes fix no variable at all (value everywhere, the default nowhere)
				const std::string cb = (r[1] % 16 == 0) ? std::string(static_cast<size_t>(NV), 'X') : cube(r[1]);
				const int val = static_cast<int>(r[2] % C::R), def = static_cast<int>(r[3] % C::R);
				log << step << ":cons(" << cb << "," << val << "," << def << ") ";
				Table t; t.def = def;
				for (int x = 0; x < NX; ++x) t.v[static_cast<size_t>(x)] = matches(cb, x) ? val : def;
				eng::LibSection ls(ctx, "mtbdd:construct");
				put(MT(SymbolicVarAsgn(cb), C::enc(val), C::enc(def)), t, nextGroup++, r[7]);
				break;
			}
			case 2: {
				what = "constant";
				const int val = static_cast<int>(r[2] % C::R);
				log << step << ":const(" << val << ") ";
				Table t; t.def = val; t.v.fill(val);
				eng::LibSection ls(ctx, "mtbdd:constant");
				put(MT(C::enc(val)), t, nextGroup++, r[7]);
				break;
			}
			case 3: {
				what = "apply1";
				size_t i = pick(r[1]);
				F1& f = f1_; f.seed = r[2];
				log << step << ":apply1(m" << i << ") ";
				Table t; t.def = f.code(pool[i].t.def);
				for (int x = 0; x < NX; ++x) t.v[static_cast<size_t>(x)] = f.code(pool[i].t.v[static_cast<size_t>(x)]);
				eng::LibSection ls(ctx, "mtbdd:apply1");
				put(f(*pool[i].m), t, pool[i].group, r[7]);
				break;
			}
			case 4: case 5: case 6: {
				what = "apply2";
				size_t i = pick(r[1]), j = pick(r[2]);
				F2& f = f2_; f.seed = r[3]; f.kind = static_cast<int>(r[4] % 4 == 0 ? 1 : (r[4] % 4 == 1 ? 2 : 0));
				log << step << ":apply2(m" << i << ",m" << j << ",kind" << f.kind << ") ";
				if (pool[i].group == pool[j].group) sharedApply = true;
				Table t; t.def = f.code(pool[i].t.def, pool[j].t.def);
				for (int x = 0; x < NX; ++x) t.v[static_cast<size_t>(x)] = f.code(pool[i].t.v[static_cast<size_t>(x)], pool[j].t.v[static_cast<size_t>(x)]);
				const int grp = pool[i].group;
				for (auto& hh : pool) if (hh.group == pool[j].group) hh.group = grp;     // sub-graphs may now be shared
				eng::LibSection ls(ctx, "mtbdd:apply2");
				put(f(*pool[i].m, *pool[j].m), t, grp, r[7]);
				break;
			}
			case 7: {
				what = "apply3";
				size_t i = pick(r[1]), j = pick(r[2]), k = pick(r[3]);
				F3& f = f3_; f.seed = r[4];
				log << step << ":apply3(m" << i << ",m" << j << ",m" << k << ") ";
				if (pool[i].group == pool[j].group || pool[j].group == pool[k].group) sharedApply = true;
				Table t; t.def = f.code(pool[i].t.def, pool[j].t.def, pool[k].t.def);
				for (int x = 0; x < NX; ++x) { const size_t ux = static_cast<size_t>(x); t.v[ux] = f.code(pool[i].t.v[ux], pool[j].t.v[ux], pool[k].t.v[ux]); }
				eng::LibSection ls(ctx, "mtbdd:apply3");
				put(f(*pool[i].m, *pool[j].m, *pool[k].m), t, pool[i].group, r[7]);
				break;
			}
			case 8: {           // projection with an idempotent commutative associative combiner
				what = "project";
				size_t i = pick(r[1]);
				const uint32_t mask = r[2] % 64;
				projMax_.kind = 1; projMin_.kind = 2;
				F2& f = (r[3] % 2) ? projMin_ : projMax_;
				projected = true;
				log << step << ":project(m" << i << ",vars" << mask << (f.kind == 1 ? ",max) " : ",min) ");
				Table t; t.def = pool[i].t.def;
				for (int x = 0; x < NX; ++x) {
					int acc = -1;
					for (int y = 0; y < NX; ++y) {
						if (((x ^ y) & ~static_cast<int>(mask)) != 0) continue;      // y agrees with x outside the projected variables
						const int v = pool[i].t.v[static_cast<size_t>(y)];
						acc = (acc < 0) ? v : f.code(acc, v);
					}
					t.v[static_cast<size_t>(x)] = acc;
				}
				eng::LibSection ls(ctx, "mtbdd:project");
				if (r[4] % 2) {
					// the same projection computed once before and thrown away: nothing of it may be handed out again
					MT scratch = pool[i].m->Project([mask](size_t var) { return ((mask >> var) & 1) != 0; }, f);
					(void)scratch;
				}
				put(pool[i].m->Project([mask](size_t var) { return ((mask >> var) & 1) != 0; }, f), t, pool[i].group, r[7]);
				break;
			}
			case 9: {           // renaming by a strictly increasing map: identity below t, +1 from t upwards
				size_t i = pick(r[1]);
				if (pool[i].t.depends_on(NV - 1)) { ctx.count("skipped_precondition"); break; }
				what = "rename";
				const int tvar = static_cast<int>(r[2] % (NV - 1));
				log << step << ":rename(m" << i << ",shift-from-" << tvar << ") ";
				Table t; t.def = pool[i].t.def;
				for (int x = 0; x < NX; ++x) {
					// g(x) = f(y) with y_v = x_{rho(v)}
					int y = 0;
					for (int v = 0; v < NV - 1; ++v) { const int rv = (v >= tvar) ? v + 1 : v; if ((x >> rv) & 1) y |= 1 << v; }
					t.v[static_cast<size_t>(x)] = pool[i].t.v[static_cast<size_t>(y)];
				}
				eng::LibSection ls(ctx, "mtbdd:rename");
				put(pool[i].m->Rename([tvar](size_t var) { return (static_cast<int>(var) >= tvar) ? var + 1 : var; }), t, pool[i].group, r[7]);
				break;
			}
			case 10: {          // prefix extension above all variables of f
				size_t i = pick(r[1]);
				const int off = pool[i].t.top_var() + 1 + static_cast<int>(r[3] % 2);
				if (off >= NV) { ctx.count("skipped_precondition"); break; }
				what = "extend";
				const std::string cb = cube(r[2], NV - off);
				log << step << ":extend(m" << i << "," << cb << ",off" << off << ") ";
				Table t; t.def = pool[i].t.def;
				for (int x = 0; x < NX; ++x) t.v[static_cast<size_t>(x)] = matches(cb, x, off) ? pool[i].t.v[static_cast<size_t>(x & ((1 << off) - 1))] : t.def;
				eng::LibSection ls(ctx, "mtbdd:extend");
				put(pool[i].m->ExtendWith(SymbolicVarAsgn(cb), static_cast<size_t>(off)), t, pool[i].group, r[7]);
				break;
			}
			case 11: {          // prefix selection with a concrete prefix
				size_t i = pick(r[1]);
				const int off = 1 + static_cast<int>(r[3] % (NV - 1));
				what = "prefix";
				const int q = static_cast<int>(r[2] % (1u << (NV - off)));
				log << step << ":prefix(m" << i << "," << q << ",off" << off << ") ";
				Table t; t.def = pool[i].t.def;
				for (int x = 0; x < NX; ++x) t.v[static_cast<size_t>(x)] = pool[i].t.v[static_cast<size_t>((x & ((1 << off) - 1)) | (q << off))];
				eng::LibSection ls(ctx, "mtbdd:prefix");
				put(pool[i].m->GetMtbddForPrefix(SymbolicVarAsgn(static_cast<size_t>(NV - off), static_cast<size_t>(q)), static_cast<size_t>(off)), t, pool[i].group, r[7]);
				break;
			}
			case 12: {
				what = "copy";
				size_t i = pick(r[1]);
				if (crowdMode && (r[6] % 2)) { what = "crowd"; crowd_step(r, i); break; }
				log << step << ":copy(m" << i << ") ";
				eng::LibSection ls(ctx, "mtbdd:copy");
				MT c(*pool[i].m);
				put(std::move(c), pool[i].t, pool[i].group, r[7]);
				break;
			}
			case 13: {          // assignment, including self-assignment and between handles sharing a root
				what = "assign";
				size_t i = pick(r[1]), j = pick(r[2]);
				log << step << ":assign(m" << j << "=m" << i << ") ";
				eng::LibSection ls(ctx, "mtbdd:assign");
				*pool[j].m = *pool[i].m;
				pool[j].t = pool[i].t; pool[j].group = pool[i].group;
				break;
			}
			case 14: {          // destroy a handle
				if (pool.size() < 2) break;
				what = "destroy";
				size_t i = pick(r[1]);
				log << step << ":destroy(m" << i << ") ";
				for (size_t j = 0; j < pool.size(); ++j) if (j != i && pool[j].group == pool[i].group) destroyedSharing = true;
				eng::LibSection ls(ctx, "mtbdd:destroy");
				pool.erase(pool.begin() + static_cast<long>(i));
				break;
			}
			default: {          // read-only visitors
				what = "void-apply";
				size_t i = pick(r[1]), j = pick(r[2]);
				log << step << ":visit(m" << i << ",m" << j << ") ";
				V1 v1;
				V2& v2 = v2_;      // one visitor object for the whole history
				size_t stoppedAfter = 0;
				{
					eng::LibSection ls(ctx, "mtbdd:void-apply");
					v1(*pool[i].m);
					if (r[3] % 2) {
						// a run that stops itself at the first leaf pair, then a complete run with the same object
						v2.seen.clear(); v2.stopAfterFirst = true;
						v2(*pool[i].m, *pool[j].m);
						stoppedAfter = v2.seen.size();
					}
					v2.seen.clear(); v2.stopAfterFirst = false;
					v2(*pool[i].m, *pool[j].m);
				}
				if ((r[3] % 2) && stoppedAfter != 1) fail("mtbdd:void-apply2:stop", "a visitor that stops at the first leaf pair visited " + std::to_string(stoppedAfter) + " pairs");
				std::set<int> w1; std::set<std::pair<int,int>> w2;
				for (int x = 0; x < NX; ++x) { const size_t ux = static_cast<size_t>(x); w1.insert(pool[i].t.v[ux]); w2.insert({pool[i].t.v[ux], pool[j].t.v[ux]}); }
				if (v1.seen != w1) fail("mtbdd:void-apply1", "visited leaves differ from the values the function takes");
				if (v2.seen != w2) fail("mtbdd:void-apply2", "visited leaf pairs differ from the co-occurring value pairs");
				break;
			}
		}
		if (what.empty() || failed) return;
		ops.insert(what);
		check_all(what);
		if (!failed && !pool.empty() && what != "destroy" && what != "void-apply" && what != "crowd") check_paths(pool[(r[6]) % pool.size()]);
		if (!failed && !lifetime && lastPut < pool.size() &&
			(what == "project" || what == "rename" || what == "extend" || what == "prefix" || what == "construct" || (r[6] / 8) % 4 == 0))
			check_canonical(pool[lastPut], what);
	}
};

} // namespace mt
